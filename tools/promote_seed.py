#!/usr/bin/env python3
"""tools/promote_seed.py <name> <breaks-property> "<needs>" "<caught-by>"  — records a verified seeded change under /verif/seeded/<name>/
and promotes (up to 2 per check) the shrunk replays found under the patch to committed regression inputs."""
import sys, os, json, shutil, glob
name, prop, needs, caught = sys.argv[1:5]
src = "/tmp/seeded-out/%s" % name
dst = "/verif/seeded/%s" % name
os.makedirs(dst, exist_ok=True)
for f in ["patch.diff", "demo.diff", "notes.md"]:
    if os.path.exists(os.path.join(src, f)):
        shutil.copy(os.path.join(src, f), os.path.join(dst, f))
log = open("/tmp/t/verify-all.log").read() if os.path.exists("/tmp/t/verify-all.log") else ""
sect = ""
if ("== %s\n" % name) in log:
    sect = log.split("== %s\n" % name)[1].split("\n== ")[0]
promoted = []
for d in sorted(glob.glob("/tmp/t/seed-replays/%s/*" % name)):
    cid = os.path.basename(d)
    for k, f in enumerate(sorted(glob.glob(d + "/new-*.json"))[:2]):
        out = "/verif/replays/%s/seed-%s-%d.json" % (cid, name, k)
        os.makedirs(os.path.dirname(out), exist_ok=True)
        shutil.copy(f, out)
        promoted.append(out)
meta = {
    "breaks_property": prop,
    "needs_to_manifest": needs,
    "origin": "written by an independent sub-agent that saw only the property text and its own scratch worktree",
    "confirmed_by_me": {
        "how": "scratch worktree " + os.environ.get("SEED_WT", "/tmp/wt-verify") + " at /repo HEAD: git apply patch.diff + demo.diff; cargo test --workspace --no-fail-fast --offline; then git apply -R patch.diff and the same command again",
        "result": sect.strip() or "see DESIGN.md",
    },
    "caught_by": caught,
    "regression_replays": promoted,
}
json.dump(meta, open(os.path.join(dst, "meta.json"), "w"), indent=1)
print(name, "->", dst, "promoted", len(promoted))
