#!/usr/bin/env python3
"""Generates /verif/MANIFEST.json from the table below (kept in one place so it stays valid)."""
import json, os, subprocess
ROOT = os.path.dirname(os.path.dirname(os.path.abspath(__file__)))
props = [json.loads(l) for l in open(os.path.join(ROOT, "properties.jsonl"))]

# id -> (category, technique, level text, level note, design ref)
CHECKS = {}
def add(id, cat, tech, text, note, ref):
    CHECKS[id] = (cat, tech, text, note, ref)

exec(open(os.path.join(ROOT, "tools", "checks_table.py")).read())

hooks = subprocess.run(["git", "-C", "/repo", "log", "--format=%H %s", "--grep=^verif hook"], capture_output=True, text=True).stdout.strip().splitlines()
manifest = {
    "version": 1,
    "setup_cmd": "cd /verif/harness && CARGO_NET_OFFLINE=true cargo build --release --offline",
    "hooks": {
        "guard": "--cfg chalk_verif",
        "enable": "harness/.cargo/config.toml sets rustflags = [\"--cfg\", \"chalk_verif\"]; the harness depends on ../../repo/chalk-* by path, so every ./check rebuilds /repo's working tree with the hooks on",
        "baseline_off_cmd": "cd /repo && cargo test --workspace --no-fail-fast --offline",
        "source_commits": [h.split()[0] for h in hooks],
        "add_only": True,
    },
    "engines": [
        {"name": "libFuzzer target parse_lower", "path": "fuzz", "serves_properties": ["C24"],
         "kind_free_text": "cargo-fuzz crate (nightly): coverage-guided stage of `./check C24 thorough` (tools/fuzz_c24.sh) on the harness's own entry function props::c24::exercise; crashes are confirmed through `check C24 --replay` before they are reported"},
        {"name": "chalk-verif harness", "path": "harness", "serves_properties": sorted(CHECKS.keys()),
         "kind_free_text": "Rust crate: proptest-driven choice-tape generators, independent reference models (ground Horn evaluator, reference unifier, de-Bruijn calculus, variance walk, orphan rules, rule tables), differential/metamorphic drivers, fault-injecting database, shrinking + replay files, evidence writer"},
    ],
    "checks": [],
    "not_applicable": [],
    "notes": "Every check: ./check <ID> <quick|thorough> rebuilds the harness against /repo's working tree (hooks on) and runs 32 fixed shards in child processes; exit 0 held / 1 VIOLATION / 2 inconclusive. VERIF_SEED seeds all generation. known_findings.json lists recorded genuine defects by signature.",
}
for p in props:
    id = p["id"]
    if id in CHECKS:
        cat, tech, text, note, ref = CHECKS[id]
        manifest["checks"].append({
            "property_id": id,
            "quick_cmd": "./check %s quick" % id,
            "thorough_cmd": "./check %s thorough" % id,
            "evidence_file": "/verif/evidence/%s.json" % id,
            "replay_cmd_template": "./check %s --replay {path}" % id,
            "engine": "chalk-verif harness",
            "level_claimed": {"category": cat, "text": text, "design_ref": ref},
            "level_note": note,
            "technique": tech,
        })
    else:
        manifest["not_applicable"].append({"property_id": id, "reason": NOT_APPLICABLE.get(id, "check not built yet in this session (planned, see DESIGN.md section 2)")})
json.dump(manifest, open(os.path.join(ROOT, "MANIFEST.json"), "w"), indent=1)
print("checks:", len(manifest["checks"]), "not_applicable:", len(manifest["not_applicable"]))
