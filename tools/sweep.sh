#!/bin/bash
# usage: tools/sweep.sh <tier> "<seeds>" <ID>...   — runs checks for several seeds, prints one line per run + failure signatures
# (works from a `vp run` snapshot too: makes ../repo resolve to /repo)
cd "$(dirname "$0")/.."
# from a `vp run --with-repo` snapshot use the frozen copy of /repo (so that edits to /repo do not disturb the sweep)
[ -e ../repo ] || ln -sfn "${VP_RUN_REPO:-/repo}" ../repo
TIER="$1"; SEEDS="$2"; shift 2
for s in $SEEDS; do
  for id in "$@"; do
    out=$(VERIF_SEED=$s ./check "$id" "$TIER" 2>&1); code=$?
    echo "seed=$s $id exit=$code $(echo "$out" | grep -E "^$id (quick|thorough):")"
    echo "$out" | grep -E "^--- failure|^INCONCLUSIVE" | sort | uniq -c | head -10
    rm -f replays/*/new-*.json.keep
  done
done
