#!/bin/sh
# Coverage-guided stage of `./check C24 thorough`: libFuzzer (cargo +nightly fuzz) on the same entry function as the
# proptest engine (props::c24::exercise), seeded with the hand-written seeds and every block cut from /repo/tests.
# A crash is confirmed by replaying it through `check C24 --replay` (stable build, the registered oracle) before it is
# reported. Exit 0 nothing found / 1 confirmed violation / 2 inconclusive. A tool chain that cannot build the target
# makes the stage a no-op (noted), never a failure of the check.
ROOT="$(cd "$(dirname "$0")/.." && pwd)"
SECS="${VERIF_FUZZ_SECS:-240}"
SEED="${VERIF_SEED:-0}"
W="$ROOT/evidence/.work/fuzz-c24"
rm -rf "$W"; mkdir -p "$W/artifacts"
CHECK="$ROOT/harness/target/release/check"
"$CHECK" --dump-c24-corpus "$W" >/dev/null || { echo "NOTE: libFuzzer stage skipped (cannot write corpus)"; exit 0; }
NCORPUS=$(ls "$W/corpus" | wc -l)
if ! (cd "$ROOT/harness" && RUSTFLAGS="--cfg chalk_verif" CARGO_NET_OFFLINE=true cargo +nightly fuzz build --fuzz-dir ../fuzz parse_lower >"$W/build.log" 2>&1); then
  echo "NOTE: libFuzzer stage skipped (cargo +nightly fuzz build failed; see evidence/.work/fuzz-c24/build.log)"
  exit 0
fi
BIN="$ROOT/fuzz/target/x86_64-unknown-linux-gnu/release/parse_lower"
[ -x "$BIN" ] || { echo "NOTE: libFuzzer stage skipped (no binary)"; exit 0; }
(cd "$W" && "$BIN" corpus -artifact_prefix="$W/artifacts/" -max_total_time="$SECS" -seed=$((SEED + 1)) -len_control=0 -max_len=2000 -dict="$W/chalk.dict" -jobs=8 -workers=8 -print_final_stats=1 -rss_limit_mb=4096 >"$W/fuzz.log" 2>&1)
RUNS=$(cat "$W"/fuzz-*.log 2>/dev/null | grep -o 'number_of_executed_units: [0-9]*' | awk '{s+=$2} END {print s+0}')
COV=$(cat "$W"/fuzz-*.log 2>/dev/null | grep -o 'cov: [0-9]*' | sed 's/cov: //' | sort -n | tail -1)
NCRASH=$(ls "$W/artifacts" 2>/dev/null | grep -c '^crash-\|^oom-\|^timeout-')
echo "C24 thorough, libFuzzer stage: ${RUNS:-0} executions in ${SECS}s from $NCORPUS seed files, coverage counters ${COV:-?}, artifacts $NCRASH"
CODE=0
for f in "$W"/artifacts/crash-*; do
  [ -e "$f" ] || continue
  OUT="$ROOT/replays/C24/new-fuzz-$(basename "$f" | cut -c7-22).json"
  mkdir -p "$ROOT/replays/C24"
  python3 - "$f" "$OUT" <<'PY'
import json, sys
data = open(sys.argv[1], 'rb').read().decode('utf-8', 'replace')
json.dump({"property": "C24", "signature": "libfuzzer-crash", "message": "found by the libFuzzer stage", "description": {"text": data, "origin": "libfuzzer"}, "case": {"text": data, "origin": "libfuzzer"}}, open(sys.argv[2], 'w'), indent=1)
PY
  "$CHECK" C24 --replay "$OUT" >"$W/replay.log" 2>&1
  RC=$?
  if [ $RC -eq 1 ]; then
    grep -E "^--- failure|^panic" "$W/replay.log" | head -3
    echo "VIOLATION property=C24 replay=$OUT"
    CODE=1
  else
    echo "NOTE: libFuzzer artifact $(basename "$f") does not reproduce through the registered oracle (exit $RC); kept in evidence/.work/fuzz-c24/artifacts"
    rm -f "$OUT"
    [ $CODE -eq 0 ] && CODE=2
  fi
done
# record the stage in the evidence file of this run
python3 - "$ROOT/evidence/C24.json" "${RUNS:-0}" "$SECS" "$NCORPUS" "${COV:-0}" "$NCRASH" <<'PY'
import json, sys
p = sys.argv[1]
try:
    d = json.load(open(p))
    h = d.setdefault("coverage", {}).setdefault("histogram", {})
    h["libfuzzer:executions"] = int(sys.argv[2]); h["libfuzzer:seconds"] = int(sys.argv[3]); h["libfuzzer:seed_corpus_files"] = int(sys.argv[4])
    h["libfuzzer:coverage_counters"] = int(sys.argv[5]); h["libfuzzer:artifacts"] = int(sys.argv[6])
    json.dump(d, open(p, "w"), indent=1)
except Exception as e:
    print("NOTE: could not add the libFuzzer stage to the evidence file:", e)
PY
exit $CODE
