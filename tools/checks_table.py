NOT_APPLICABLE = {}
add("C01", "exploration", "property-based testing against a reference model (ground Horn evaluator, bounded Herbrand universe)",
    "Generated programs/goals; both solvers' definite answers compared with an independent three-valued LFP/GFP evaluator over all ground instances up to depth 2/3. Finds wrong Unique/None/definite guidance on generated shapes; cannot prove absence and cannot see solutions outside the bounded universe.",
    "Trusts harness/src/refsem.rs as the logical meaning; `not` over placeholders not judged; work budget bounds each solve.", "DESIGN.md 2/C01")
add("C02", "exploration", "property-based testing against a reference model with a 'within limits' side condition",
    "Closed goals on generated programs at default and reduced solver limits: must be decided (never Ambiguous) and agree with the reference value whenever the derivation stays within the limits with a margin.",
    "Conservative limits predicate (margin 2 on type size, 3x atoms vs overflow depth); reference semantics trusted.", "DESIGN.md 2/C02")
add("C03", "exploration", "property-based testing of SLG enumeration streams against a reference model and stream invariants",
    "Recorded (answer, has_next) streams of solve_multiple checked for soundness, duplicates, completeness inside the bounded universe and flag accuracy under take-all/stop-after-k policies; every completed stream is enumerated again on the same solver and must repeat exactly.",
    "Completeness only inside the bounded universe; stops at first Floundered item.", "DESIGN.md 2/C03")
add("C04", "exploration", "differential testing SLG vs recursive solver on generated programs",
    "Each generated goal solved by both solvers; the property's compatibility relation is the oracle (no reference semantics needed). Programs from the Horn / auto / environment / associated-type / built-in generators, plus generated goals with const, lifetime and int/float unknowns over a fixed program compared at the text level.",
    "Programs are only lowered (not coherence/WF-checked), as the property states; lifetimes erased before comparing substitutions.", "DESIGN.md 2/C04")
add("C09", "exploration", "generated-input search for non-termination/panics under a deterministic work budget (cfg hook counter)",
    "Generated growing/cyclic programs, all goal forms, default and reduced limits, solve and solve_multiple, plus text-level goals with lifetime / const unknowns and hypotheses over a fixed program: every call must return without panic within 10x the budget that 3x covers the largest honest solve. Cannot prove termination; refutes it within the budget.",
    "'bounded work' = work-counter budget (goal/type folds, SLG loop iterations, recursive solve_goal entries); recursive solver without cache and on growing programs not judged for budget.", "DESIGN.md 2/C09")
add("C10", "exploration", "stateful property-based testing: generated goal histories on one solver vs fresh solvers (differential)",
    "Histories with repetitions on one solver instance per configuration; every answer must equal the fresh-solver answer; recursive cache on/off must agree.",
    "Rendered answers compared; histories abandoned after an out-of-contract panic.", "DESIGN.md 2/C10")
add("C11", "fault_enumeration", "enumeration of every interruption schedule of generated cases against an approximation relation + fresh-solver differential",
    "For each generated (program, goal, solver): callback returns false at the k-th call for every k (cap 48) and always; interrupted answer must be the full answer or a compatible Ambiguous; all follow-up solves equal fresh answers.",
    "K measured per case; schedules beyond 48 only via 'always false'.", "DESIGN.md 2/C11")
add("C12", "fault_enumeration", "fault injection at every database call of generated cases (panic), then differential vs fresh solver",
    "Delegating database panics at the n-th call for every n of a clean solve (cap 120/400), optional second fault; later solves on the same instance must not panic and must equal fresh answers. A quarter of the programs have mixed inductive/coinductive cycles; a no-fault baseline of the same history separates panic damage from history dependence.",
    "Fault database is harness code; SLG wrong answers after a mid-search panic are a recorded known finding.", "DESIGN.md 2/C12")
add("C13", "exploration", "metamorphic testing: generated item / where-clause permutations of generated programs",
    "Original and permuted program text both lowered by chalk; rendered answers per solver must be identical for goals that stay within size limits by construction.",
    "Goals judged only on non-growing programs (and finite-answer programs for goals with unknowns).", "DESIGN.md 2/C13")
add("C14", "exploration", "property-based testing of InferenceTable::relate against an independent reference unifier (Robinson + universes + kinds)",
    "Generated relate histories; success equivalence, MGU equality via canonical state of all variables, residual kinds/universes, lifetime obligations, covariant re-relation incl. universe soundness of the intermediate state.",
    "Reference unifier in harness/src/ir.rs is trusted; no TyKind::Error.", "DESIGN.md 2/C14")
add("C15", "exploration", "property-based testing: state invariant over generated relate histories + order symmetry",
    "Canonical state of all variables before/after every failing relate must be identical; relate(a,b) ok iff relate(b,a) ok. Higher-ranked fn-pointer probes: a failing relate must also leave the next universe / variable of the table unchanged.",
    "State observed through canonicalization on a clone.", "DESIGN.md 2/C15")
add("C16", "exploration", "metamorphic + round-trip property-based testing of canonicalize / u_canonicalize / instantiate / invert",
    "Renaming invariance, inconsistent renamings distinguished, pre-unified variables identified, first-occurrence numbering, binder kinds/universes, instantiate/canonicalize and universe round trips, invert mapping — on generated values with type/lifetime/const variables and placeholders.",
    "Const variables typed usize.", "DESIGN.md 2/C16")
add("C17", "exploration", "property-based testing of the anti-unifier and may-invalidate via cfg hook with an independent instance-of matcher; algebraic laws of Solution::combine",
    "Generated answer sequences: every merged answer is an instance of the guidance; may_invalidate=false implies the answer and its instances are covered; combine commutative and non-strengthening.",
    "Matcher on mirror AST trusted; the anti-unifier may lose variable sharing (only weakens), which is not judged.", "DESIGN.md 2/C17")
add("C25", "exploration", "property-based testing against a reference de Bruijn calculus + algebraic laws",
    "Generated types, goals and clauses with bound variables under nested binders: shift/subst compared with an independent mirror calculus and with the substitution laws; no-op folders are the identity.",
    "Mirror calculus in harness/src/bir.rs trusted.", "DESIGN.md 2/C25")
add("C26", "exploration", "property-based testing: flags recomputed from a mirror AST",
    "Generated types over every TyKind / lifetime / const kind; the 15 occurrence flags must equal an independent recursive 'occurs' walk.",
    "Placeholder-form associated/opaque types make HAS_TY_PROJECTION/HAS_TY_OPAQUE don't-care; STILL_FURTHER_SPECIALIZABLE excluded.", "DESIGN.md 2/C26")
add("C27", "fault_enumeration", "exhaustive fault enumeration (length x failing position x mode x layout) with drop ledger and counting allocator, plus random larger lengths",
    "Every element dropped exactly once on Err/panic at every position, none on success, heap balance restored, every block freed with the layout it was allocated with and output buffers aligned for their element type; exhaustive for len <= 12, random up to 200; private functions through the cfg hook and the public Vec/Box TypeFoldable route.",
    "Reads of freed memory only visible through their effects (ids, allocator imbalance, crash).", "DESIGN.md 2/C27")
add("C28", "exploration", "property-based testing with a structural validity predicate over all returned solutions",
    "All solutions and enumerated answers for generated goals (type, lifetime, const, int/float unknowns; nested quantifiers): arity, kinds, bound variables, universes, and applying the substitution.",
    "Unused binders allowed; constraints may mention any query placeholder.", "DESIGN.md 2/C28")
add("C05", "exploration", "property-based testing against a reference model (greatest fixed point) + stateful differential (shared solver instance vs fresh solver)",
    "Generated auto-trait / coinductive programs incl. dense cyclic ones; closed goals must get the GFP value of the reference model and the same answer on a shared solver instance in any generated order.",
    "SLG answers on nested coinductive cycles are a recorded known finding (signature-keyed); hand-written strict regression inputs cover that area.", "DESIGN.md 2/C05")
add("C06", "exploration", "property-based testing against a reference implied-bounds closure + stateful differential (goal with / without hypothesis on one solver)",
    "Generated supertrait hierarchies and struct where-clauses; goal pairs with and without hypotheses in generated interleavings: exactness against the reference closure, and no leak of hypotheses between solves.",
    "Closure bounded (truncated closure only weakens the oracle); recursive solver's ambiguity with existential trait parameters is a known finding.", "DESIGN.md 2/C06")
add("C07", "exploration", "property-based testing against an independent associated-type normaliser (one-way matching + ground evaluator)",
    "Generated coherent associated-type programs; Normalize / projection-equality goals with unknown, right and wrong candidates, forall variants: Unique answers must name exactly the reference value, None only when no impl applies. Every goal is also solved through ChalkDatabase and must agree with the answer on the lowered Program.",
    "Programs coherent by construction; nested projections normalised recursively up to depth 6.", "DESIGN.md 2/C07")
add("C08", "exploration", "property-based testing against a rule table for the built-in traits",
    "Generated programs with Sized / Copy / Clone / Tuple / FnPtr lang items and nested built-in types; closed goals compared with a rule table written from the property and the chalk book.",
    "Rule table (harness/src/builtin.rs) trusted; user traits on dyn types other than `dyn Tr: Tr` not judged.", "DESIGN.md 2/C08")
add("C18", "exploration", "property-based testing: one-sided implication between real unification and the could-match pre-filter",
    "Generated (clause conclusion, goal) pairs and generated programs (each goal with its type unknowns as general, integer and float variables): whenever InferenceTable::relate unifies them, could_match / impls_for_trait must not have filtered the clause out.",
    "Only the soundness direction of the filter is a property; precision is not judged.", "DESIGN.md 2/C18")
add("C19", "exploration", "property-based testing of the coherence checker for totality and priority consistency against the reference evaluator",
    "Generated impl sets with controlled header relations: coherence() never panics under either solver; on Ok, overlapping impls have distinct priorities ordered by specialisation over the bounded universe.",
    "Bounded universe (depth <= 3) decides 'applies'; marker traits and negative pairs exempt as the property states.", "DESIGN.md 2/C19")
add("C20", "exploration", "property-based testing against a direct implementation of the orphan rule",
    "Generated single-impl programs over local / upstream / fundamental / built-in / parameter arguments in all positions; orphan_check() under both solvers compared with the rule as stated.",
    "The rule as stated in the property is the oracle.", "DESIGN.md 2/C20")
add("C21", "exploration", "property-based testing: implied-bound soundness of accepted programs against the reference evaluator",
    "Generated programs written without regard to soundness; for those checked_program() accepts, every implied bound must hold in the reference model over the bounded universe.",
    "Acceptance through circular implied bounds is a recorded known finding.", "DESIGN.md 2/C21")
add("C22", "exploration", "round-trip property-based testing with a grammar-directed program generator and a normalising equivalence",
    "Generated programs over every item/type/attribute kind the writer can express, the solver-check model programs and every program block of /repo/tests: print, reparse, compare modulo where-clause sets and implied trait bounds, then a second exact round.",
    "Closures, coroutines, foreign types, program clauses, fn-def types and name clashes are outside the domain (counted); dropped fn ABI and the non-convergent equality bound are known findings (masked by construction so the search continues).", "DESIGN.md 2/C22")
add("C23", "exploration", "differential property-based testing: answers on the original program vs the program printed by the recording database wrapper",
    "Programs of the C01/C05/C06/C07/C08 fragments with goal histories solved through LoggingRustIrDatabase by both solvers; the logged text must lower, the goals must lower against it, and a fresh solver on it must give identical answers; the wrapper must not change answers.",
    "Goals naming items the solver never queried are a known finding (stubbed, search continues); SLG order-dependent differences classified with the C13 classes.", "DESIGN.md 2/C23")
add("C24", "exploration", "fuzzing of parser + lowering with byte, token and mutation generators (crash oracle); thorough tier adds a coverage-guided libFuzzer stage on the same entry function",
    "Arbitrary bytes, token soup over the grammar's vocabulary, mutated valid programs/goals from seeds and /repo/tests, planted semantic errors: Ok or Err, never a panic or process crash. Thorough: then cargo-fuzz/libFuzzer (8 workers, seed corpus cut from /repo/tests, token dictionary); a crash counts once it reproduces through `check C24 --replay`.",
    "Stack exhaustion on pathological nesting not judged.", "DESIGN.md 2/C24")
add("C29", "exploration", "property-based testing of Subtype goals against an independent variance walk and outlives entailment",
    "Generated skeleton types instantiated with lifetimes (static, placeholders, unknowns), optional structure mutation; the solvers' constraints must be equivalent to the variance walk's requirements under reflexivity + transitivity.",
    "Convention fixed by the pinned variance tests; higher-ranked fn pointers excluded.", "DESIGN.md 2/C29")
