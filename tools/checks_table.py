NOT_APPLICABLE = {}
add("C01", "exploration", "property-based testing against a reference model (ground Horn evaluator, bounded Herbrand universe)",
    "Generated programs/goals; both solvers' definite answers compared with an independent three-valued LFP/GFP evaluator over all ground instances up to depth 2/3. Finds wrong Unique/None/definite guidance on generated shapes; cannot prove absence and cannot see solutions outside the bounded universe.",
    "Trusts harness/src/refsem.rs as the logical meaning; `not` over placeholders not judged; work budget bounds each solve.", "DESIGN.md 2/C01")
add("C02", "exploration", "property-based testing against a reference model with a 'within limits' side condition",
    "Closed goals on generated programs at default and reduced solver limits: must be decided (never Ambiguous) and agree with the reference value whenever the derivation stays within the limits with a margin.",
    "Conservative limits predicate (margin 2 on type size, 3x atoms vs overflow depth); reference semantics trusted.", "DESIGN.md 2/C02")
add("C03", "exploration", "property-based testing of SLG enumeration streams against a reference model and stream invariants",
    "Recorded (answer, has_next) streams of solve_multiple checked for soundness, duplicates, completeness inside the bounded universe and flag accuracy under take-all/stop-after-k policies.",
    "Completeness only inside the bounded universe; stops at first Floundered item.", "DESIGN.md 2/C03")
add("C04", "exploration", "differential testing SLG vs recursive solver on generated programs",
    "Each generated goal solved by both solvers; the property's compatibility relation is the oracle (no reference semantics needed).",
    "Programs are only lowered (not coherence/WF-checked), as the property states; lifetimes erased before comparing substitutions.", "DESIGN.md 2/C04")
