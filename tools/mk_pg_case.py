#!/usr/bin/env python3
"""Builds hand-written regression inputs (replay files) for the PG-based checks from a tiny spec.
spec = dict(structs={name: [field types...]}, traits={name: kind}, impls=[(trait, type, [(trait, type)...])], goals=[[(trait, type)...]...])
types are nullary struct names."""
import json, sys, os
def build(spec):
    snames = list(spec["structs"].keys()); tnames = list(spec["traits"].keys())
    ty = lambda n: {"Adt": [snames.index(n), []]}
    tref = lambda t, n: {"tr": tnames.index(t), "args": [ty(n)]}
    prog = {
        "ctors": [{"name": n, "arity": 0, "is_enum": False, "variants": [[ty(f) for f in fs]], "wcs": [], "upstream": False, "fundamental": False} for n, fs in spec["structs"].items()],
        "traits": [{"name": n, "extra": 0, "kind": k, "supers": [], "lang": None, "upstream": False, "marker": False, "non_enumerable": False, "assocs": []} for n, k in spec["traits"].items()],
        "impls": [{"nparams": 0, "head": tref(t, n), "wcs": [tref(a, b) for a, b in ws], "positive": True, "values": [], "upstream": False} for t, n, ws in spec.get("impls", [])],
    }
    goals = [{"prefix": [], "body": [{"Holds": tref(t, n)} for t, n in g]} for g in spec["goals"]]
    return {"program": prog, "goals": goals}
def write(prop, name, case, note):
    d = "/verif/replays/%s" % prop; os.makedirs(d, exist_ok=True)
    json.dump({"property": prop, "signature": "regression-input", "message": note, "description": {"note": note}, "case": case}, open("%s/%s.json" % (d, name), "w"), indent=1)
if __name__ == "__main__":
    auto4 = dict(structs={"R": ["Z", "Y"], "Y": ["X"], "X": ["Z"], "Z": ["Y", "X"]}, traits={"Send": "Auto"}, goals=[[("Send", "Z")], [("Send", "Y")], [("Send", "X")], [("Send", "R")], [("Send", "Y"), ("Send", "Z")]])
    pg = build(auto4)
    note = "overlapping auto-trait cycles (two refinement steps needed): every goal must be Unique on a fresh SLG and recursive solver (seeded change C05: answers_hash without delayed subgoals)"
    write("C05", "seed-C05-overlapping-auto-cycles", {"pg": pg, "order": [3]}, note)
    write("C01", "seed-C05-overlapping-auto-cycles", pg, note)
    write("C04", "seed-C05-overlapping-auto-cycles", pg, note)
    co = dict(structs={"S": []}, traits={"CR": "Coinductive", "CX": "Coinductive", "CY": "Coinductive", "CZ": "Coinductive"},
              impls=[("CR", "S", [("CZ", "S"), ("CY", "S")]), ("CY", "S", [("CX", "S")]), ("CX", "S", [("CZ", "S")]), ("CZ", "S", [("CY", "S"), ("CX", "S")])],
              goals=[[("CZ", "S")], [("CR", "S")]])
    pg2 = build(co)
    write("C05", "seed-C05-overlapping-coinductive-cycles", {"pg": pg2, "order": [1]}, note)
    write("C01", "seed-C05-overlapping-coinductive-cycles", pg2, note)
    print("written")
