#!/bin/bash
# usage: tools/try_seed.sh <patch.diff> <tier> <ID>...   — applies a seeded patch to /repo, runs checks, reverts
set -u
PATCH="$1"; TIER="$2"; shift 2
cd /repo || exit 2
if ! git diff --quiet; then echo "/repo has uncommitted changes; refusing"; exit 2; fi
rm -f /verif/replays/*/new-*.json
git apply "$PATCH" || { echo "patch does not apply"; exit 2; }
cd /verif
for id in "$@"; do
  out=$(./check "$id" "$TIER" 2>&1)
  code=$?
  echo "== $id exit=$code: $(echo "$out" | grep -E "^$id (quick|thorough):")"
  echo "$out" | grep -E "^--- failure" | sort | uniq -c | head -8
  echo "$out" | grep -E "^INCONCLUSIVE" | head -3
done
# keep the replays produced under the patch outside /verif, so they are not replayed on the clean tree by accident
NAME=$(basename $(dirname "$PATCH"))
mkdir -p /tmp/t/seed-replays/$NAME
for d in /verif/replays/*/; do for f in "$d"new-*.json; do [ -e "$f" ] && mkdir -p /tmp/t/seed-replays/$NAME/$(basename $d) && mv "$f" /tmp/t/seed-replays/$NAME/$(basename $d)/; done; done
cd /repo && git checkout -- . && git status --short | head -3
