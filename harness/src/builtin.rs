//! Built-in (lang item) trait rule table, written from the property text and the book's
//! well-known-traits table. Filled in by the C08 check.
use crate::model::*;

/// Extra rule bodies for a ground atom of a lang-item trait (explicit impls are handled by the
/// generic evaluator). `None` = no opinion.
pub fn builtin_rules(p: &Program, l: Lang, a: &TRef) -> Option<Vec<Vec<TRef>>> {
    let t = &a.args[0];
    let mk = |x: &Ty| TRef { tr: a.tr, args: vec![x.clone()] };
    let yes = Some(vec![vec![]]);
    let no = Some(vec![]);
    match l {
        Lang::Sized => match t {
            Ty::Adt(c, args) => {
                let ct = &p.ctors[*c];
                if ct.is_enum {
                    yes
                } else {
                    match ct.variants.get(0).and_then(|v| v.last()) {
                        None => yes,
                        Some(f) => Some(vec![vec![mk(&f.subst_params(args))]]),
                    }
                }
            }
            Ty::Bi(b, args) => match b {
                Bi::Tuple => match args.last() {
                    None => yes,
                    Some(x) => Some(vec![vec![mk(x)]]),
                },
                Bi::Slice | Bi::Str | Bi::Dyn(_) => no,
                Bi::Array(_) | Bi::Ref(_) | Bi::Raw(_) | Bi::FnPtr | Bi::Scalar(_) | Bi::Never => yes,
            },
            Ty::Ph(..) => no,
            _ => None,
        },
        Lang::Copy | Lang::Clone => match t {
            Ty::Adt(..) => no,
            Ty::Bi(b, args) => match b {
                Bi::Tuple => Some(vec![args.iter().map(mk).collect()]),
                Bi::Array(_) => Some(vec![vec![mk(&args[0])]]),
                Bi::FnPtr => yes,
                // scalars, str, `!`, raw pointers, shared references: "provided in libcore" => only the
                // program's explicit impls; &mut, slices, dyn: not applicable => likewise no built-in rule
                Bi::Scalar(_) | Bi::Ref(_) | Bi::Raw(_) | Bi::Never | Bi::Slice | Bi::Str | Bi::Dyn(_) => no,
            },
            Ty::Ph(..) => no,
            _ => None,
        },
        Lang::Tuple => match t {
            Ty::Bi(Bi::Tuple, _) => yes,
            Ty::Adt(..) | Ty::Bi(..) | Ty::Ph(..) => no,
            _ => None,
        },
        Lang::FnPtr => match t {
            Ty::Bi(Bi::FnPtr, _) => yes,
            Ty::Adt(..) | Ty::Bi(..) | Ty::Ph(..) => no,
            _ => None,
        },
    }
}
