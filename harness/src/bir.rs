//! Mirror AST with de Bruijn binders for the IR-level properties C25 (binder operations) and
//! C26 (type flags): generator, conversion to chalk_ir, reference de Bruijn calculus, flag oracle.
use crate::tape::Tape;
use chalk_integration::interner::ChalkIr;
use chalk_integration::RawId;
use chalk_ir::cast::Cast;
use chalk_ir::*;
use serde::{Deserialize, Serialize};

pub const I: ChalkIr = ChalkIr;

#[derive(Clone, Copy, Debug, PartialEq, Eq, Hash, Serialize, Deserialize)]
pub enum K {
    Ty,
    Lt,
    Ct,
}

#[derive(Clone, Debug, PartialEq, Eq, Hash, Serialize, Deserialize)]
pub enum BL {
    Static,
    Erased,
    Error,
    Bound(usize, usize),
    Ph(usize, usize),
    Infer(u32),
}

/// const; `cty`: 0 usize, 1 a placeholder type, 2 the error type, 3 an opaque alias type
#[derive(Clone, Debug, PartialEq, Eq, Hash, Serialize, Deserialize)]
pub enum BCv {
    Val(u32),
    Bound(usize, usize),
    Ph(usize, usize),
    Infer(u32),
}
#[derive(Clone, Debug, PartialEq, Eq, Hash, Serialize, Deserialize)]
pub struct BC {
    pub cty: u8,
    pub v: BCv,
}

#[derive(Clone, Debug, PartialEq, Eq, Hash, Serialize, Deserialize)]
pub enum BG {
    T(BT),
    L(BL),
    C(BC),
}

#[derive(Clone, Debug, PartialEq, Eq, Hash, Serialize, Deserialize)]
pub enum BWC {
    Implemented(u32, Vec<BG>),
    AliasEq(u32, Vec<BG>, BT),
    LifetimeOutlives(BL, BL),
    TypeOutlives(BT, BL),
}

/// quantified where clause: `forall<binders> clause`
#[derive(Clone, Debug, PartialEq, Eq, Hash, Serialize, Deserialize)]
pub struct BW {
    pub binders: Vec<K>,
    pub clause: BWC,
}

#[derive(Clone, Debug, PartialEq, Eq, Hash, Serialize, Deserialize)]
pub enum BT {
    Adt(u32, Vec<BG>),
    AssocTy(u32, Vec<BG>),
    OpaqueTy(u32, Vec<BG>),
    FnDef(u32, Vec<BG>),
    Tuple(Vec<BT>),
    Array(Box<BT>, BC),
    Slice(Box<BT>),
    Raw(bool, Box<BT>),
    Ref(bool, BL, Box<BT>),
    Scalar,
    Str,
    Never,
    Foreign(u32),
    Error,
    Placeholder(usize, usize),
    /// dyn: bounds under one `Self` type binder (each bound has its own binder list), lifetime
    Dyn(Vec<BW>, BL),
    Proj(u32, Vec<BG>),
    Opaque(u32, Vec<BG>),
    Bound(usize, usize),
    /// inference variable (index, kind 0 general 1 int 2 float)
    Infer(u32, u8),
    /// fn pointer: number of lifetime binders, inputs and output
    Fn(usize, Vec<BT>),
}

#[derive(Clone, Debug, PartialEq, Eq, Hash, Serialize, Deserialize)]
pub enum BGoal {
    Quant(bool, Vec<K>, Box<BGoal>),
    All(Vec<BGoal>),
    Not(Box<BGoal>),
    Eq(BG, BG),
    Implemented(u32, Vec<BG>),
    WellFormed(BT),
    Implies(Vec<BClause>, Box<BGoal>),
    CannotProve,
}

#[derive(Clone, Debug, PartialEq, Eq, Hash, Serialize, Deserialize)]
pub struct BClause {
    pub binders: Vec<K>,
    pub consequence: (u32, Vec<BG>),
    pub conditions: Vec<BGoal>,
}

// ------------------------------------------------------------------ conversion to chalk_ir

fn usize_ty() -> Ty<ChalkIr> {
    TyKind::Scalar(Scalar::Uint(UintTy::Usize)).intern(I)
}
fn bv(d: usize, i: usize) -> BoundVar {
    BoundVar::new(DebruijnIndex::new(d as u32), i)
}
fn ph(u: usize, i: usize) -> PlaceholderIndex {
    PlaceholderIndex { ui: UniverseIndex { counter: u }, idx: i }
}
pub fn kinds(ks: &[K]) -> VariableKinds<ChalkIr> {
    VariableKinds::from_iter(
        I,
        ks.iter().map(|k| match k {
            K::Ty => VariableKind::Ty(TyVariableKind::General),
            K::Lt => VariableKind::Lifetime,
            K::Ct => VariableKind::Const(usize_ty()),
        }),
    )
}

pub fn cty(k: u8) -> Ty<ChalkIr> {
    match k {
        0 => usize_ty(),
        1 => ph(0, 9).to_ty(I),
        2 => TyKind::Error.intern(I),
        _ => TyKind::Alias(AliasTy::Opaque(OpaqueTy { opaque_ty_id: OpaqueTyId(RawId { index: 77 }), substitution: Substitution::empty(I) })).intern(I),
    }
}

pub fn lt(l: &BL) -> Lifetime<ChalkIr> {
    match l {
        BL::Static => LifetimeData::Static.intern(I),
        BL::Erased => LifetimeData::Erased.intern(I),
        BL::Error => LifetimeData::Error.intern(I),
        BL::Bound(d, i) => bv(*d, *i).to_lifetime(I),
        BL::Ph(u, i) => ph(*u, *i).to_lifetime(I),
        BL::Infer(v) => InferenceVar::from(*v).to_lifetime(I),
    }
}
pub fn ct(c: &BC) -> Const<ChalkIr> {
    let ty = cty(c.cty);
    match &c.v {
        BCv::Val(n) => ConstData { ty, value: ConstValue::Concrete(ConcreteConst { interned: *n }) }.intern(I),
        BCv::Bound(d, i) => bv(*d, *i).to_const(I, ty),
        BCv::Ph(u, i) => ph(*u, *i).to_const(I, ty),
        BCv::Infer(v) => InferenceVar::from(*v).to_const(I, ty),
    }
}
pub fn ga(g: &BG) -> GenericArg<ChalkIr> {
    match g {
        BG::T(t) => ty(t).cast(I),
        BG::L(l) => lt(l).cast(I),
        BG::C(c) => ct(c).cast(I),
    }
}
pub fn subst(a: &[BG]) -> Substitution<ChalkIr> {
    Substitution::from_iter(I, a.iter().map(ga))
}
fn wc(w: &BWC) -> WhereClause<ChalkIr> {
    match w {
        BWC::Implemented(id, a) => WhereClause::Implemented(TraitRef { trait_id: TraitId(RawId { index: *id }), substitution: subst(a) }),
        BWC::AliasEq(id, a, t) => WhereClause::AliasEq(AliasEq { alias: AliasTy::Projection(ProjectionTy { associated_ty_id: AssocTypeId(RawId { index: *id }), substitution: subst(a) }), ty: ty(t) }),
        BWC::LifetimeOutlives(a, b) => WhereClause::LifetimeOutlives(LifetimeOutlives { a: lt(a), b: lt(b) }),
        BWC::TypeOutlives(t, l) => WhereClause::TypeOutlives(TypeOutlives { ty: ty(t), lifetime: lt(l) }),
    }
}
pub fn ty(t: &BT) -> Ty<ChalkIr> {
    let id = |i: &u32| RawId { index: *i };
    match t {
        BT::Adt(i, a) => TyKind::Adt(AdtId(id(i)), subst(a)).intern(I),
        BT::AssocTy(i, a) => TyKind::AssociatedType(AssocTypeId(id(i)), subst(a)).intern(I),
        BT::OpaqueTy(i, a) => TyKind::OpaqueType(OpaqueTyId(id(i)), subst(a)).intern(I),
        BT::FnDef(i, a) => TyKind::FnDef(FnDefId(id(i)), subst(a)).intern(I),
        BT::Tuple(a) => TyKind::Tuple(a.len(), Substitution::from_iter(I, a.iter().map(|x| ty(x).cast::<GenericArg<ChalkIr>>(I)))).intern(I),
        BT::Array(x, c) => TyKind::Array(ty(x), ct(c)).intern(I),
        BT::Slice(x) => TyKind::Slice(ty(x)).intern(I),
        BT::Raw(m, x) => TyKind::Raw(if *m { Mutability::Mut } else { Mutability::Not }, ty(x)).intern(I),
        BT::Ref(m, l, x) => TyKind::Ref(if *m { Mutability::Mut } else { Mutability::Not }, lt(l), ty(x)).intern(I),
        BT::Scalar => TyKind::Scalar(Scalar::Bool).intern(I),
        BT::Str => TyKind::Str.intern(I),
        BT::Never => TyKind::Never.intern(I),
        BT::Foreign(i) => TyKind::Foreign(ForeignDefId(id(i))).intern(I),
        BT::Error => TyKind::Error.intern(I),
        BT::Placeholder(u, i) => ph(*u, *i).to_ty(I),
        BT::Dyn(bounds, l) => {
            let qwcs = QuantifiedWhereClauses::from_iter(I, bounds.iter().map(|b| Binders::new(kinds(&b.binders), wc(&b.clause))));
            TyKind::Dyn(DynTy { bounds: Binders::new(kinds(&[K::Ty]), qwcs), lifetime: lt(l) }).intern(I)
        }
        BT::Proj(i, a) => TyKind::Alias(AliasTy::Projection(ProjectionTy { associated_ty_id: AssocTypeId(id(i)), substitution: subst(a) })).intern(I),
        BT::Opaque(i, a) => TyKind::Alias(AliasTy::Opaque(OpaqueTy { opaque_ty_id: OpaqueTyId(id(i)), substitution: subst(a) })).intern(I),
        BT::Bound(d, i) => bv(*d, *i).to_ty(I),
        BT::Infer(v, k) => InferenceVar::from(*v).to_ty(
            I,
            match k {
                0 => TyVariableKind::General,
                1 => TyVariableKind::Integer,
                _ => TyVariableKind::Float,
            },
        ),
        BT::Fn(n, io) => TyKind::Function(FnPointer {
            num_binders: *n,
            sig: FnSig { abi: chalk_integration::interner::ChalkFnAbi::Rust, safety: Safety::Safe, variadic: false },
            substitution: FnSubst(Substitution::from_iter(I, io.iter().map(|x| ty(x).cast::<GenericArg<ChalkIr>>(I)))),
        })
        .intern(I),
    }
}

pub fn goal(g: &BGoal) -> Goal<ChalkIr> {
    match g {
        BGoal::Quant(fa, ks, x) => GoalData::Quantified(if *fa { QuantifierKind::ForAll } else { QuantifierKind::Exists }, Binders::new(kinds(ks), goal(x))).intern(I),
        BGoal::All(gs) => GoalData::All(Goals::from_iter(I, gs.iter().map(goal))).intern(I),
        BGoal::Not(x) => GoalData::Not(goal(x)).intern(I),
        BGoal::Eq(a, b) => GoalData::EqGoal(EqGoal { a: ga(a), b: ga(b) }).intern(I),
        BGoal::Implemented(id, a) => GoalData::DomainGoal(DomainGoal::Holds(WhereClause::Implemented(TraitRef { trait_id: TraitId(RawId { index: *id }), substitution: subst(a) }))).intern(I),
        BGoal::WellFormed(t) => GoalData::DomainGoal(DomainGoal::WellFormed(WellFormed::Ty(ty(t)))).intern(I),
        BGoal::Implies(cs, x) => GoalData::Implies(ProgramClauses::from_iter(I, cs.iter().map(clause)), goal(x)).intern(I),
        BGoal::CannotProve => GoalData::CannotProve.intern(I),
    }
}

pub fn clause(c: &BClause) -> ProgramClause<ChalkIr> {
    let imp = ProgramClauseImplication {
        consequence: DomainGoal::Holds(WhereClause::Implemented(TraitRef { trait_id: TraitId(RawId { index: c.consequence.0 }), substitution: subst(&c.consequence.1) })),
        conditions: Goals::from_iter(I, c.conditions.iter().map(goal)),
        constraints: Constraints::empty(I),
        priority: ClausePriority::High,
    };
    ProgramClauseData(Binders::new(kinds(&c.binders), imp)).intern(I)
}

// ------------------------------------------------------------------ generator

/// kinds of the (dangling) outer binders a term may refer to
pub const OUTER: [K; 4] = [K::Ty, K::Lt, K::Ct, K::Ty];
pub const NOUTER: usize = 2;

pub struct Gen<'t, 'a> {
    pub t: &'t mut Tape<'a>,
    /// binder stack, innermost last
    pub stack: Vec<Vec<K>>,
    /// allow inference variables / error / erased etc. (flags) — C25 keeps terms foldable by all folders
    pub exotic: bool,
}

impl<'t, 'a> Gen<'t, 'a> {
    /// a bound variable of kind k, if any is in scope
    fn bound(&mut self, k: K) -> Option<(usize, usize)> {
        let depth = self.stack.len();
        let mut cands: Vec<(usize, usize)> = vec![];
        for (lvl, ks) in self.stack.iter().rev().enumerate() {
            for (i, kk) in ks.iter().enumerate() {
                if *kk == k {
                    cands.push((lvl, i));
                }
            }
        }
        for o in 0..NOUTER {
            for (i, kk) in OUTER.iter().enumerate() {
                if *kk == k {
                    cands.push((depth + o, i));
                }
            }
        }
        if cands.is_empty() {
            None
        } else {
            Some(cands[self.t.choose(cands.len())])
        }
    }
    pub fn l(&mut self) -> BL {
        match self.t.choose(8) {
            0 => BL::Static,
            1 | 2 | 3 => match self.bound(K::Lt) {
                Some((d, i)) => BL::Bound(d, i),
                None => BL::Static,
            },
            4 => BL::Ph(self.t.choose(3), self.t.choose(2)),
            5 if self.exotic => BL::Infer(self.t.choose(4) as u32),
            6 if self.exotic => BL::Erased,
            7 if self.exotic => BL::Error,
            _ => BL::Static,
        }
    }
    pub fn c(&mut self) -> BC {
        let cty = if self.exotic && self.t.chance(25) { 1 + self.t.choose(3) as u8 } else { 0 };
        let v = match self.t.choose(6) {
            0 | 1 => match self.bound(K::Ct) {
                Some((d, i)) => BCv::Bound(d, i),
                None => BCv::Val(1),
            },
            2 => BCv::Ph(self.t.choose(3), 2 + self.t.choose(2)),
            3 if self.exotic => BCv::Infer(4 + self.t.choose(4) as u32),
            _ => BCv::Val(self.t.choose(5) as u32),
        };
        BC { cty, v }
    }
    pub fn g(&mut self, depth: usize) -> BG {
        match self.t.choose(5) {
            0 => BG::L(self.l()),
            1 => BG::C(self.c()),
            _ => BG::T(self.ty(depth)),
        }
    }
    fn args(&mut self, depth: usize) -> Vec<BG> {
        let n = self.t.choose(3);
        (0..n).map(|_| self.g(depth)).collect()
    }
    /// a constructor id determined by (family, kinds of the arguments): one id always has one signature
    fn sig_id(base: u32, a: &[BG]) -> u32 {
        let mut code = 0u32;
        for g in a {
            code = code * 4
                + match g {
                    BG::T(_) => 1,
                    BG::L(_) => 2,
                    BG::C(_) => 3,
                };
        }
        base * 100 + code
    }
    pub fn ty(&mut self, depth: usize) -> BT {
        if depth == 0 || self.t.chance(30) {
            return match self.t.choose(12) {
                0..=3 => match self.bound(K::Ty) {
                    Some((d, i)) => BT::Bound(d, i),
                    None => BT::Scalar,
                },
                4 => BT::Placeholder(self.t.choose(3), self.t.choose(2)),
                5 => BT::Str,
                6 => BT::Never,
                7 => BT::Foreign(5),
                8 if self.exotic => BT::Infer(8 + self.t.choose(4) as u32, self.t.choose(3) as u8),
                9 if self.exotic => BT::Error,
                _ => BT::Scalar,
            };
        }
        let d = depth - 1;
        match self.t.choose(16) {
            0 | 1 => {
                let a = self.args(d);
                BT::Adt(Self::sig_id(self.t.choose(2) as u32, &a), a)
            }
            2 => {
                let a = self.args(d);
                BT::AssocTy(Self::sig_id(20, &a), a)
            }
            3 => {
                let a = self.args(d);
                BT::OpaqueTy(Self::sig_id(30, &a), a)
            }
            4 => {
                let a = self.args(d);
                BT::FnDef(Self::sig_id(40, &a), a)
            }
            5 => {
                let n = self.t.choose(3);
                BT::Tuple((0..n).map(|_| self.ty(d)).collect())
            }
            6 => BT::Array(Box::new(self.ty(d)), self.c()),
            7 => BT::Slice(Box::new(self.ty(d))),
            8 => BT::Raw(self.t.chance(50), Box::new(self.ty(d))),
            9 | 10 => BT::Ref(self.t.chance(40), self.l(), Box::new(self.ty(d))),
            11 => {
                let a = self.args(d);
                BT::Proj(Self::sig_id(50, &a), a)
            }
            12 => {
                let a = self.args(d);
                BT::Opaque(Self::sig_id(60, &a), a)
            }
            13 | 14 => {
                let n = self.t.choose(3);
                self.stack.push(vec![K::Lt; n]);
                let k = 1 + self.t.choose(3);
                let io = (0..k).map(|_| self.ty(d)).collect();
                self.stack.pop();
                BT::Fn(n, io)
            }
            _ => {
                self.stack.push(vec![K::Ty]);
                let nb = 1 + self.t.choose(2);
                let mut bounds = vec![];
                for _ in 0..nb {
                    let nl = self.t.choose(2);
                    self.stack.push(vec![K::Lt; nl]);
                    let self_ty = BG::T(BT::Bound(1, 0));
                    let clause = match self.t.choose(5) {
                        0 => {
                            let mut a = vec![self_ty];
                            a.extend(self.args(d));
                            BWC::AliasEq(Self::sig_id(51, &a), a, self.ty(d))
                        }
                        1 => BWC::LifetimeOutlives(self.l(), self.l()),
                        2 => BWC::TypeOutlives(self.ty(d), self.l()),
                        _ => {
                            let mut a = vec![self_ty];
                            a.extend(self.args(d));
                            BWC::Implemented(Self::sig_id(70 + self.t.choose(2) as u32, &a), a)
                        }
                    };
                    self.stack.pop();
                    bounds.push(BW { binders: vec![K::Lt; nl], clause });
                }
                self.stack.pop();
                let l = self.l();
                BT::Dyn(bounds, l)
            }
        }
    }
    fn some_kinds(&mut self) -> Vec<K> {
        let n = 1 + self.t.choose(3);
        (0..n).map(|_| [K::Ty, K::Lt, K::Ct][self.t.choose(3)]).collect()
    }
    pub fn goal(&mut self, depth: usize) -> BGoal {
        if depth == 0 {
            return match self.t.choose(4) {
                0 => BGoal::Eq(self.g(2), self.g(2)),
                1 => BGoal::WellFormed(self.ty(2)),
                2 => BGoal::CannotProve,
                _ => {
                    let a = self.args(2);
                    BGoal::Implemented(Self::sig_id(71, &a), a)
                }
            };
        }
        let d = depth - 1;
        match self.t.choose(8) {
            0 | 1 => {
                let ks = self.some_kinds();
                self.stack.push(ks.clone());
                let g = self.goal(d);
                self.stack.pop();
                BGoal::Quant(self.t.chance(50), ks, Box::new(g))
            }
            2 => {
                let n = 1 + self.t.choose(3);
                BGoal::All((0..n).map(|_| self.goal(d)).collect())
            }
            3 => BGoal::Not(Box::new(self.goal(d))),
            4 => {
                let n = 1 + self.t.choose(2);
                let cs = (0..n).map(|_| self.clause(d)).collect();
                BGoal::Implies(cs, Box::new(self.goal(d)))
            }
            _ => self.goal(0),
        }
    }
    pub fn clause(&mut self, depth: usize) -> BClause {
        let ks = if self.t.chance(70) { self.some_kinds() } else { vec![] };
        self.stack.push(ks.clone());
        let a = self.args(2);
        let consequence = (Self::sig_id(72, &a), a);
        let n = self.t.choose(3);
        let conditions = (0..n).map(|_| self.goal(depth.min(1))).collect();
        self.stack.pop();
        BClause { binders: ks, consequence, conditions }
    }
}

// ------------------------------------------------------------------ reference de Bruijn calculus

/// what to do with a variable that is free at the root of the term (d >= cutoff)
pub trait VarMap {
    /// `rel` = d - cutoff (0 = bound by the innermost binder *outside* the term)
    fn ty(&mut self, rel: usize, i: usize, cutoff: usize) -> Result<BT, ()>;
    fn lt(&mut self, rel: usize, i: usize, cutoff: usize) -> Result<BL, ()>;
    fn ct(&mut self, rel: usize, i: usize, cutoff: usize, cty: u8) -> Result<BC, ()>;
}

pub fn map_l(l: &BL, cut: usize, m: &mut dyn VarMap) -> Result<BL, ()> {
    match l {
        BL::Bound(d, i) if *d >= cut => m.lt(*d - cut, *i, cut),
        o => Ok(o.clone()),
    }
}
pub fn map_c(c: &BC, cut: usize, m: &mut dyn VarMap) -> Result<BC, ()> {
    match &c.v {
        BCv::Bound(d, i) if *d >= cut => m.ct(*d - cut, *i, cut, c.cty),
        _ => Ok(c.clone()),
    }
}
pub fn map_g(g: &BG, cut: usize, m: &mut dyn VarMap) -> Result<BG, ()> {
    Ok(match g {
        BG::T(t) => BG::T(map_t(t, cut, m)?),
        BG::L(l) => BG::L(map_l(l, cut, m)?),
        BG::C(c) => BG::C(map_c(c, cut, m)?),
    })
}
fn map_args(a: &[BG], cut: usize, m: &mut dyn VarMap) -> Result<Vec<BG>, ()> {
    a.iter().map(|g| map_g(g, cut, m)).collect()
}
pub fn map_t(t: &BT, cut: usize, m: &mut dyn VarMap) -> Result<BT, ()> {
    Ok(match t {
        BT::Adt(i, a) => BT::Adt(*i, map_args(a, cut, m)?),
        BT::AssocTy(i, a) => BT::AssocTy(*i, map_args(a, cut, m)?),
        BT::OpaqueTy(i, a) => BT::OpaqueTy(*i, map_args(a, cut, m)?),
        BT::FnDef(i, a) => BT::FnDef(*i, map_args(a, cut, m)?),
        BT::Proj(i, a) => BT::Proj(*i, map_args(a, cut, m)?),
        BT::Opaque(i, a) => BT::Opaque(*i, map_args(a, cut, m)?),
        BT::Tuple(a) => BT::Tuple(a.iter().map(|x| map_t(x, cut, m)).collect::<Result<_, _>>()?),
        BT::Array(x, c) => BT::Array(Box::new(map_t(x, cut, m)?), map_c(c, cut, m)?),
        BT::Slice(x) => BT::Slice(Box::new(map_t(x, cut, m)?)),
        BT::Raw(mu, x) => BT::Raw(*mu, Box::new(map_t(x, cut, m)?)),
        BT::Ref(mu, l, x) => BT::Ref(*mu, map_l(l, cut, m)?, Box::new(map_t(x, cut, m)?)),
        BT::Bound(d, i) if *d >= cut => m.ty(*d - cut, *i, cut)?,
        BT::Fn(n, io) => BT::Fn(*n, io.iter().map(|x| map_t(x, cut + 1, m)).collect::<Result<_, _>>()?),
        BT::Dyn(bounds, l) => {
            let mut bs = vec![];
            for b in bounds {
                let c2 = cut + 2;
                let clause = match &b.clause {
                    BWC::Implemented(i, a) => BWC::Implemented(*i, map_args(a, c2, m)?),
                    BWC::AliasEq(i, a, x) => BWC::AliasEq(*i, map_args(a, c2, m)?, map_t(x, c2, m)?),
                    BWC::LifetimeOutlives(a, b2) => BWC::LifetimeOutlives(map_l(a, c2, m)?, map_l(b2, c2, m)?),
                    BWC::TypeOutlives(x, l2) => BWC::TypeOutlives(map_t(x, c2, m)?, map_l(l2, c2, m)?),
                };
                bs.push(BW { binders: b.binders.clone(), clause });
            }
            BT::Dyn(bs, map_l(l, cut, m)?)
        }
        o => o.clone(),
    })
}
pub fn map_goal(g: &BGoal, cut: usize, m: &mut dyn VarMap) -> Result<BGoal, ()> {
    Ok(match g {
        BGoal::Quant(fa, ks, x) => BGoal::Quant(*fa, ks.clone(), Box::new(map_goal(x, cut + 1, m)?)),
        BGoal::All(gs) => BGoal::All(gs.iter().map(|x| map_goal(x, cut, m)).collect::<Result<_, _>>()?),
        BGoal::Not(x) => BGoal::Not(Box::new(map_goal(x, cut, m)?)),
        BGoal::Eq(a, b) => BGoal::Eq(map_g(a, cut, m)?, map_g(b, cut, m)?),
        BGoal::Implemented(i, a) => BGoal::Implemented(*i, map_args(a, cut, m)?),
        BGoal::WellFormed(t) => BGoal::WellFormed(map_t(t, cut, m)?),
        BGoal::Implies(cs, x) => BGoal::Implies(cs.iter().map(|c| map_clause(c, cut, m)).collect::<Result<_, _>>()?, Box::new(map_goal(x, cut, m)?)),
        BGoal::CannotProve => BGoal::CannotProve,
    })
}
pub fn map_clause(c: &BClause, cut: usize, m: &mut dyn VarMap) -> Result<BClause, ()> {
    Ok(BClause {
        binders: c.binders.clone(),
        consequence: (c.consequence.0, map_args(&c.consequence.1, cut + 1, m)?),
        conditions: c.conditions.iter().map(|g| map_goal(g, cut + 1, m)).collect::<Result<_, _>>()?,
    })
}

pub struct ShiftIn(pub usize);
impl VarMap for ShiftIn {
    fn ty(&mut self, rel: usize, i: usize, cut: usize) -> Result<BT, ()> {
        Ok(BT::Bound(rel + cut + self.0, i))
    }
    fn lt(&mut self, rel: usize, i: usize, cut: usize) -> Result<BL, ()> {
        Ok(BL::Bound(rel + cut + self.0, i))
    }
    fn ct(&mut self, rel: usize, i: usize, cut: usize, cty: u8) -> Result<BC, ()> {
        Ok(BC { cty, v: BCv::Bound(rel + cut + self.0, i) })
    }
}
pub struct ShiftOut(pub usize);
impl VarMap for ShiftOut {
    fn ty(&mut self, rel: usize, i: usize, cut: usize) -> Result<BT, ()> {
        if rel < self.0 {
            Err(())
        } else {
            Ok(BT::Bound(rel + cut - self.0, i))
        }
    }
    fn lt(&mut self, rel: usize, i: usize, cut: usize) -> Result<BL, ()> {
        if rel < self.0 {
            Err(())
        } else {
            Ok(BL::Bound(rel + cut - self.0, i))
        }
    }
    fn ct(&mut self, rel: usize, i: usize, cut: usize, cty: u8) -> Result<BC, ()> {
        if rel < self.0 {
            Err(())
        } else {
            Ok(BC { cty, v: BCv::Bound(rel + cut - self.0, i) })
        }
    }
}
/// replace the variables of the innermost outer binder by parameters, shift the others out by one
pub struct SubstMap<'p>(pub &'p [BG]);
impl<'p> VarMap for SubstMap<'p> {
    fn ty(&mut self, rel: usize, i: usize, cut: usize) -> Result<BT, ()> {
        if rel == 0 {
            match &self.0[i] {
                BG::T(t) => map_t(t, 0, &mut ShiftIn(cut)),
                _ => Err(()),
            }
        } else {
            Ok(BT::Bound(rel + cut - 1, i))
        }
    }
    fn lt(&mut self, rel: usize, i: usize, cut: usize) -> Result<BL, ()> {
        if rel == 0 {
            match &self.0[i] {
                BG::L(l) => map_l(l, 0, &mut ShiftIn(cut)),
                _ => Err(()),
            }
        } else {
            Ok(BL::Bound(rel + cut - 1, i))
        }
    }
    fn ct(&mut self, rel: usize, i: usize, cut: usize, cty: u8) -> Result<BC, ()> {
        if rel == 0 {
            match &self.0[i] {
                BG::C(c) => map_c(c, 0, &mut ShiftIn(cut)),
                _ => Err(()),
            }
        } else {
            Ok(BC { cty, v: BCv::Bound(rel + cut - 1, i) })
        }
    }
}

/// smallest relative index of a free variable (None = closed term)
pub struct MinFree(pub Option<usize>, pub bool);
impl VarMap for MinFree {
    fn ty(&mut self, rel: usize, i: usize, cut: usize) -> Result<BT, ()> {
        self.0 = Some(self.0.map_or(rel, |m| m.min(rel)));
        if cut > 0 {
            self.1 = true;
        }
        Ok(BT::Bound(rel + cut, i))
    }
    fn lt(&mut self, rel: usize, i: usize, cut: usize) -> Result<BL, ()> {
        self.0 = Some(self.0.map_or(rel, |m| m.min(rel)));
        if cut > 0 {
            self.1 = true;
        }
        Ok(BL::Bound(rel + cut, i))
    }
    fn ct(&mut self, rel: usize, i: usize, cut: usize, cty: u8) -> Result<BC, ()> {
        self.0 = Some(self.0.map_or(rel, |m| m.min(rel)));
        if cut > 0 {
            self.1 = true;
        }
        Ok(BC { cty, v: BCv::Bound(rel + cut, i) })
    }
}

// ------------------------------------------------------------------ flag oracle

pub mod flags {
    use super::*;
    pub const TY_INFER: u16 = 1;
    pub const RE_INFER: u16 = 1 << 1;
    pub const CT_INFER: u16 = 1 << 2;
    pub const TY_PH: u16 = 1 << 3;
    pub const RE_PH: u16 = 1 << 4;
    pub const CT_PH: u16 = 1 << 5;
    pub const FREE_LOCAL_REGIONS: u16 = 1 << 6;
    pub const TY_PROJECTION: u16 = 1 << 7;
    pub const TY_OPAQUE: u16 = 1 << 8;
    pub const CT_PROJECTION: u16 = 1 << 9;
    pub const ERROR: u16 = 1 << 10;
    pub const RE_ERROR: u16 = 1 << 11;
    pub const FREE_REGIONS: u16 = 1 << 12;
    pub const RE_LATE_BOUND: u16 = 1 << 13;
    pub const RE_ERASED: u16 = 1 << 14;
    pub const STILL_FURTHER_SPECIALIZABLE: u16 = 1 << 15;

    /// (expected bits, don't-care bits)
    #[derive(Default, Clone, Copy)]
    pub struct F {
        pub bits: u16,
        pub dontcare: u16,
        /// deepest nesting level at which a flag-carrying leaf was found
        pub deepest: usize,
    }
    impl F {
        fn set(&mut self, b: u16, depth: usize) {
            self.bits |= b;
            self.deepest = self.deepest.max(depth);
        }
    }

    pub fn of_l(l: &BL, f: &mut F, depth: usize) {
        match l {
            BL::Static => f.set(FREE_REGIONS, depth),
            BL::Erased => f.set(RE_ERASED, depth),
            BL::Error => f.set(RE_ERROR, depth),
            BL::Bound(..) => f.set(RE_LATE_BOUND, depth),
            BL::Ph(..) => f.set(RE_PH | FREE_LOCAL_REGIONS | FREE_REGIONS, depth),
            BL::Infer(_) => f.set(RE_INFER | FREE_LOCAL_REGIONS | FREE_REGIONS, depth),
        }
    }
    pub fn of_c(c: &BC, f: &mut F, depth: usize) {
        match c.cty {
            1 => f.set(TY_PH, depth),
            2 => f.set(ERROR, depth),
            3 => f.set(TY_OPAQUE, depth),
            _ => {}
        }
        match c.v {
            BCv::Ph(..) => f.set(CT_PH, depth),
            BCv::Infer(_) => f.set(CT_INFER, depth),
            _ => {}
        }
    }
    pub fn of_g(g: &BG, f: &mut F, depth: usize) {
        match g {
            BG::T(t) => of_t(t, f, depth),
            BG::L(l) => of_l(l, f, depth),
            BG::C(c) => of_c(c, f, depth),
        }
    }
    pub fn of_t(t: &BT, f: &mut F, depth: usize) {
        let d = depth + 1;
        match t {
            BT::Adt(_, a) | BT::FnDef(_, a) => a.iter().for_each(|g| of_g(g, f, d)),
            // the flags' doc comments do not say whether the placeholder forms count as
            // "projection"/"opaque type": those bits are don't-care when the form occurs
            BT::AssocTy(_, a) => {
                f.dontcare |= TY_PROJECTION;
                a.iter().for_each(|g| of_g(g, f, d))
            }
            BT::OpaqueTy(_, a) => {
                f.dontcare |= TY_OPAQUE;
                a.iter().for_each(|g| of_g(g, f, d))
            }
            BT::Proj(_, a) => {
                f.set(TY_PROJECTION, depth);
                a.iter().for_each(|g| of_g(g, f, d))
            }
            BT::Opaque(_, a) => {
                f.set(TY_OPAQUE, depth);
                a.iter().for_each(|g| of_g(g, f, d))
            }
            BT::Tuple(a) => a.iter().for_each(|x| of_t(x, f, d)),
            BT::Array(x, c) => {
                of_t(x, f, d);
                of_c(c, f, d)
            }
            BT::Slice(x) | BT::Raw(_, x) => of_t(x, f, d),
            BT::Ref(_, l, x) => {
                of_l(l, f, d);
                of_t(x, f, d)
            }
            BT::Scalar | BT::Str | BT::Never | BT::Foreign(_) | BT::Bound(..) => {}
            BT::Error => f.set(ERROR, depth),
            BT::Placeholder(..) => f.set(TY_PH, depth),
            BT::Infer(..) => f.set(TY_INFER, depth),
            BT::Fn(_, io) => io.iter().for_each(|x| of_t(x, f, d)),
            BT::Dyn(bounds, l) => {
                of_l(l, f, d);
                for b in bounds {
                    match &b.clause {
                        BWC::Implemented(_, a) => a.iter().for_each(|g| of_g(g, f, d)),
                        BWC::AliasEq(_, a, x) => {
                            f.set(TY_PROJECTION, d);
                            a.iter().for_each(|g| of_g(g, f, d));
                            of_t(x, f, d)
                        }
                        BWC::LifetimeOutlives(a, b2) => {
                            of_l(a, f, d);
                            of_l(b2, f, d)
                        }
                        BWC::TypeOutlives(x, l2) => {
                            of_t(x, f, d);
                            of_l(l2, f, d)
                        }
                    }
                }
            }
        }
    }
}
