//! chalk side: lowering, peeling with retained maps, solving under a deterministic work budget,
//! converting answers to the model.
use crate::model as m;
use chalk_integration::db::ChalkDatabase;
use chalk_integration::interner::ChalkIr;
use chalk_integration::lowering::lower_goal;
use chalk_integration::program::Program;
use chalk_integration::query::LoweringDatabase;
use chalk_integration::SolverChoice;
use chalk_ir::*;
use chalk_solve::infer::ucanonicalize::{UCanonicalized, UniverseMapExt};
use chalk_solve::infer::InferenceTable;
use chalk_solve::{Guidance, RustIrDatabase, Solution};
use std::sync::Arc;

pub type UGoal = UCanonical<InEnvironment<Goal<ChalkIr>>>;

pub const I: ChalkIr = ChalkIr;

/// default deterministic work budget per solve (units: SLG root-loop iterations + table creations,
/// recursive `solve_goal` entries, goal-node folds)
pub const DEFAULT_BUDGET: u64 = 300_000;

pub fn work_bucket(w: u64) -> &'static str {
    match w {
        0..=9 => "<10",
        10..=99 => "<100",
        100..=999 => "<1000",
        1000..=9999 => "<10000",
        10000..=99999 => "<100000",
        100000..=999999 => "<1000000",
        _ => ">=1000000",
    }
}

pub fn panic_message(e: Box<dyn std::any::Any + Send>) -> String {
    let m = e.downcast_ref::<String>().cloned().or(e.downcast_ref::<&str>().map(|s| s.to_string())).unwrap_or_else(|| "panic".into());
    // messages are part of failure signatures: drop the case-specific dump that some of chalk's panics append
    match m.find(": ExClause") {
        Some(i) => m[..i].to_string(),
        None => m,
    }
}

thread_local! {
    pub static LAST_PANIC_LOC: std::cell::RefCell<String> = std::cell::RefCell::new(String::new());
}

/// Silent panic hook that remembers the location of the last panic (file:line) for signatures.
pub fn install_panic_hook() {
    std::panic::set_hook(Box::new(|info| {
        // file name only: line numbers shift with unrelated edits, signatures must not
        let loc = info.location().map(|l| l.file().rsplit('/').next().unwrap_or("").to_string()).unwrap_or_default();
        LAST_PANIC_LOC.with(|c| *c.borrow_mut() = loc);
    }));
}

pub fn last_panic_loc() -> String {
    LAST_PANIC_LOC.with(|c| c.borrow().clone())
}

pub fn catch<T>(f: impl FnOnce() -> T) -> Result<T, String> {
    std::panic::catch_unwind(std::panic::AssertUnwindSafe(f)).map_err(|e| format!("{} @ {}", panic_message(e), last_panic_loc()))
}

pub fn lower_program(text: &str) -> Result<Arc<Program>, String> {
    let db = ChalkDatabase::with(text, SolverChoice::default());
    db.program_ir().map_err(|e| e.to_string())
}

pub fn checked_program(text: &str, choice: SolverChoice) -> Result<Arc<Program>, String> {
    let db = ChalkDatabase::with(text, choice);
    db.checked_program().map_err(|e| e.to_string())
}

pub struct Peeled {
    pub goal: UGoal,
    pub universes: UniverseMap,
    /// canonical binder i  ->  index (creation order) of the existential variable
    pub binder_to_exvar: Vec<usize>,
}

/// Same public steps as `Goal::into_peeled_goal`, but keeping the free-variable list and the
/// universe map so that answers can be mapped back (as chalk's own callers do).
pub fn peel(goal: Goal<ChalkIr>) -> Peeled {
    let i = ChalkIr;
    let mut infer = InferenceTable::new();
    let mut env_goal = InEnvironment::new(&Environment::new(i), goal);
    let peeled = loop {
        let InEnvironment { environment, goal } = env_goal;
        match goal.data(i) {
            GoalData::Quantified(QuantifierKind::ForAll, sub) => {
                let sub = infer.instantiate_binders_universally(i, sub.clone());
                env_goal = InEnvironment::new(&environment, sub);
            }
            GoalData::Quantified(QuantifierKind::Exists, sub) => {
                let sub = infer.instantiate_binders_existentially(i, sub.clone());
                env_goal = InEnvironment::new(&environment, sub);
            }
            GoalData::Implies(wc, sub) => {
                let ne = environment.add_clauses(i, wc.iter(i).cloned());
                env_goal = InEnvironment::new(&ne, Goal::clone(sub));
            }
            _ => break InEnvironment::new(&environment, goal),
        }
    };
    let canon = infer.canonicalize(i, peeled);
    let binder_to_exvar: Vec<usize> = canon.free_vars.iter().map(|v| InferenceVar::from(*v.skip_kind()).index() as usize).collect();
    let UCanonicalized { quantified, universes } = InferenceTable::u_canonicalize(i, &canon.quantified);
    Peeled { goal: quantified, universes, binder_to_exvar }
}

pub fn parse_and_peel(program: &Program, text: &str) -> Result<Peeled, String> {
    let goal = lower_goal(&*chalk_parse::parse_goal(text).map_err(|e| e.to_string())?, program).map_err(|e| e.to_string())?;
    Ok(peel(goal))
}

#[derive(Clone, Copy, Debug, PartialEq, Eq, PartialOrd, Ord, serde::Serialize, serde::Deserialize)]
pub enum Sv {
    Slg,
    Rec,
    RecNoCache,
}

impl Sv {
    pub fn name(self) -> &'static str {
        match self {
            Sv::Slg => "slg",
            Sv::Rec => "rec",
            Sv::RecNoCache => "rec_nocache",
        }
    }
    pub fn choice(self) -> SolverChoice {
        match self {
            Sv::Slg => SolverChoice::slg_default(),
            Sv::Rec => SolverChoice::recursive_default(),
            Sv::RecNoCache => SolverChoice::Recursive { overflow_depth: 100, caching_enabled: false, max_size: 30 },
        }
    }
    pub const BOTH: [Sv; 2] = [Sv::Slg, Sv::Rec];
}

/// Outcome of one call into a solver.
#[derive(Clone, Debug)]
pub enum Run<T> {
    Done(T),
    /// the documented, out-of-contract "overflow depth reached" panic of the recursive solver
    Overflow,
    /// deterministic work budget exceeded (hook)
    Budget,
    /// any other panic: message @ file:line
    Panic(String),
}

impl<T> Run<T> {
    pub fn done(self) -> Option<T> {
        match self {
            Run::Done(t) => Some(t),
            _ => None,
        }
    }
    pub fn kind(&self) -> &'static str {
        match self {
            Run::Done(_) => "done",
            Run::Overflow => "overflow",
            Run::Budget => "budget",
            Run::Panic(_) => "panic",
        }
    }
}

/// Run a closure that calls into chalk under the work budget, classifying panics.
pub fn guarded<T>(budget: u64, f: impl FnOnce() -> T) -> (Run<T>, u64) {
    chalk_solve::verif::start(budget);
    let r = catch(f);
    let work = chalk_solve::verif::work();
    chalk_solve::verif::start(u64::MAX);
    let run = match r {
        Ok(v) => Run::Done(v),
        Err(m) if m.contains(chalk_solve::verif::WORK_LIMIT_MESSAGE) => Run::Budget,
        Err(m) if m.contains("overflow depth reached") => Run::Overflow,
        Err(m) => Run::Panic(m),
    };
    (run, work)
}

pub fn solve_with(solver: &mut dyn chalk_solve::Solver<ChalkIr>, db: &dyn RustIrDatabase<ChalkIr>, goal: &UGoal, budget: u64) -> (Run<Option<Solution<ChalkIr>>>, u64) {
    guarded(budget, || solver.solve(db, goal))
}

pub fn solve_fresh(db: &dyn RustIrDatabase<ChalkIr>, choice: SolverChoice, goal: &UGoal, budget: u64) -> (Run<Option<Solution<ChalkIr>>>, u64) {
    let mut solver = choice.into_solver();
    // a solver that panicked may be in an arbitrary state; leak nothing, just drop it afterwards
    solve_with(&mut *solver, db, goal, budget)
}

/// rendering used for string comparisons, exactly as tests/test/mod.rs does (constraints sorted)
pub fn render(s: &Option<Solution<ChalkIr>>) -> String {
    match s {
        Some(v) => {
            let mut v = v.clone();
            if let Solution::Unique(c) = &mut v {
                let mut cs: Vec<_> = c.value.constraints.as_slice(I).to_vec();
                cs.sort_by_key(|c| format!("{:?}", c));
                c.value.constraints = Constraints::from_iter(I, cs);
            }
            v.display(ChalkIr).to_string()
        }
        None => "No possible solution".into(),
    }
}

pub fn render_run(r: &Run<Option<Solution<ChalkIr>>>) -> String {
    match r {
        Run::Done(s) => render(s),
        Run::Overflow => "<overflow depth reached>".into(),
        Run::Budget => "<work budget exceeded>".into(),
        Run::Panic(m) => format!("<PANIC {}>", m),
    }
}

#[derive(Clone, Debug, PartialEq, Eq, serde::Serialize)]
pub enum Ans {
    None,
    /// substitution (per goal binder), universes of the canonical variables of the answer
    Unique(Vec<m::Ty>, Vec<usize>),
    /// ambiguous with definite guidance
    Definite(Vec<m::Ty>, Vec<usize>),
    /// no claim
    Ambig,
}

impl Ans {
    pub fn kind(&self) -> &'static str {
        match self {
            Ans::None => "None",
            Ans::Unique(..) => "Unique",
            Ans::Definite(..) => "Definite",
            Ans::Ambig => "Ambig",
        }
    }
}

pub struct Names<'a> {
    pub program: &'a Program,
    pub model: &'a m::Program,
}

impl<'a> Names<'a> {
    pub fn ty(&self, t: &Ty<ChalkIr>) -> Result<m::Ty, String> {
        let i = ChalkIr;
        let tys = |s: &Substitution<ChalkIr>| -> Result<Vec<m::Ty>, String> {
            let mut args = vec![];
            for a in s.iter(i) {
                match a.ty(i) {
                    Some(t) => args.push(self.ty(t)?),
                    None => {} // lifetimes are erased in the model
                }
            }
            Ok(args)
        };
        match t.kind(i) {
            TyKind::Adt(id, subst) => {
                let name = self.program.adt_kinds.get(id).ok_or("unknown adt")?.name.to_string();
                let c = self.model.ctors.iter().position(|c| c.name == name).ok_or("ctor name")?;
                Ok(m::Ty::Adt(c, tys(subst)?))
            }
            TyKind::Tuple(_, s) => Ok(m::Ty::Bi(m::Bi::Tuple, tys(s)?)),
            TyKind::Slice(x) => Ok(m::Ty::Bi(m::Bi::Slice, vec![self.ty(x)?])),
            TyKind::Ref(mu, _, x) => Ok(m::Ty::Bi(m::Bi::Ref(*mu == Mutability::Mut), vec![self.ty(x)?])),
            TyKind::Raw(mu, x) => Ok(m::Ty::Bi(m::Bi::Raw(*mu == Mutability::Mut), vec![self.ty(x)?])),
            TyKind::Str => Ok(m::Ty::Bi(m::Bi::Str, vec![])),
            TyKind::Never => Ok(m::Ty::Bi(m::Bi::Never, vec![])),
            TyKind::Scalar(s) => {
                let k = match s {
                    Scalar::Int(IntTy::I32) => 0,
                    Scalar::Uint(UintTy::U8) => 1,
                    Scalar::Uint(UintTy::Usize) => 2,
                    Scalar::Float(FloatTy::F32) => 3,
                    Scalar::Bool => 4,
                    Scalar::Char => 5,
                    _ => return Err("scalar outside the model".into()),
                };
                Ok(m::Ty::Bi(m::Bi::Scalar(k), vec![]))
            }
            TyKind::Placeholder(p) => Ok(m::Ty::Ph(p.ui.counter, p.idx)),
            TyKind::BoundVar(b) => {
                if b.debruijn != DebruijnIndex::INNERMOST {
                    return Err(format!("escaping bound var {:?}", b));
                }
                Ok(m::Ty::CVar(b.index))
            }
            other => Err(format!("type outside the model in answer: {:?}", other)),
        }
    }

    /// canonical substitution (already restricted to the subst) -> model types + binder universes,
    /// mapped back into the universes of the un-compressed query
    pub fn subst(&self, peeled: &Peeled, c: &Canonical<Substitution<ChalkIr>>) -> Result<(Vec<m::Ty>, Vec<usize>), String> {
        let i = ChalkIr;
        let c = peeled.universes.map_from_canonical(i, c);
        let mut out = vec![];
        for a in c.value.iter(i) {
            out.push(self.ty(a.ty(i).ok_or("non-type entry")?)?);
        }
        let us = c.binders.iter(i).map(|b| b.skip_kind().counter).collect();
        Ok((out, us))
    }

    pub fn convert(&self, peeled: &Peeled, s: &Option<Solution<ChalkIr>>) -> Result<Ans, String> {
        Ok(match s {
            None => Ans::None,
            Some(Solution::Unique(c)) => {
                let cs = Canonical { value: c.value.subst.clone(), binders: c.binders.clone() };
                let (s, u) = self.subst(peeled, &cs)?;
                Ans::Unique(s, u)
            }
            Some(Solution::Ambig(Guidance::Definite(c))) => {
                let (s, u) = self.subst(peeled, c)?;
                Ans::Definite(s, u)
            }
            Some(Solution::Ambig(_)) => Ans::Ambig,
        })
    }
}

// ------------------------------------------------------------------ fault-injecting database

pub mod faultdb {
    use chalk_integration::interner::ChalkIr as I;
    use chalk_ir::*;
    use chalk_solve::rust_ir::*;
    use chalk_solve::RustIrDatabase;
    use std::cell::Cell;
    use std::sync::Arc;

    pub const INJECTED: &str = "INJECTED db panic";

    #[derive(Debug)]
    pub struct FaultDb<'a> {
        pub inner: &'a dyn RustIrDatabase<I>,
        pub calls: Cell<usize>,
        pub panic_at: Cell<Option<usize>>,
        pub last_name: Cell<&'static str>,
    }

    impl<'a> FaultDb<'a> {
        pub fn new(inner: &'a dyn RustIrDatabase<I>) -> Self {
            FaultDb { inner, calls: Cell::new(0), panic_at: Cell::new(None), last_name: Cell::new("") }
        }
        pub fn tick(&self, name: &'static str) {
            let c = self.calls.get();
            self.calls.set(c + 1);
            if self.panic_at.get() == Some(c) {
                self.panic_at.set(None);
                self.last_name.set(name);
                panic!("{} at call {} ({})", INJECTED, c, name);
            }
        }
    }

    impl<'a> UnificationDatabase<I> for FaultDb<'a> {
        fn fn_def_variance(&self, id: FnDefId<I>) -> Variances<I> { self.tick("fn_def_variance"); self.inner.unification_database().fn_def_variance(id) }
        fn adt_variance(&self, id: AdtId<I>) -> Variances<I> { self.tick("adt_variance"); self.inner.unification_database().adt_variance(id) }
    }

    impl<'a> RustIrDatabase<I> for FaultDb<'a> {
        fn custom_clauses(&self) -> Vec<ProgramClause<I>> { self.tick("custom_clauses"); self.inner.custom_clauses() }
        fn associated_ty_data(&self, ty: AssocTypeId<I>) -> Arc<AssociatedTyDatum<I>> { self.tick("associated_ty_data"); self.inner.associated_ty_data(ty) }
        fn trait_datum(&self, id: TraitId<I>) -> Arc<TraitDatum<I>> { self.tick("trait_datum"); self.inner.trait_datum(id) }
        fn adt_datum(&self, id: AdtId<I>) -> Arc<AdtDatum<I>> { self.tick("adt_datum"); self.inner.adt_datum(id) }
        fn coroutine_datum(&self, id: CoroutineId<I>) -> Arc<CoroutineDatum<I>> { self.tick("coroutine_datum"); self.inner.coroutine_datum(id) }
        fn coroutine_witness_datum(&self, id: CoroutineId<I>) -> Arc<CoroutineWitnessDatum<I>> { self.tick("coroutine_witness_datum"); self.inner.coroutine_witness_datum(id) }
        fn adt_repr(&self, id: AdtId<I>) -> Arc<AdtRepr<I>> { self.tick("adt_repr"); self.inner.adt_repr(id) }
        fn adt_size_align(&self, id: AdtId<I>) -> Arc<AdtSizeAlign> { self.tick("adt_size_align"); self.inner.adt_size_align(id) }
        fn fn_def_datum(&self, id: FnDefId<I>) -> Arc<FnDefDatum<I>> { self.tick("fn_def_datum"); self.inner.fn_def_datum(id) }
        fn impl_datum(&self, id: ImplId<I>) -> Arc<ImplDatum<I>> { self.tick("impl_datum"); self.inner.impl_datum(id) }
        fn associated_ty_from_impl(&self, a: ImplId<I>, b: AssocTypeId<I>) -> Option<AssociatedTyValueId<I>> { self.tick("associated_ty_from_impl"); self.inner.associated_ty_from_impl(a, b) }
        fn associated_ty_value(&self, id: AssociatedTyValueId<I>) -> Arc<AssociatedTyValue<I>> { self.tick("associated_ty_value"); self.inner.associated_ty_value(id) }
        fn opaque_ty_data(&self, id: OpaqueTyId<I>) -> Arc<OpaqueTyDatum<I>> { self.tick("opaque_ty_data"); self.inner.opaque_ty_data(id) }
        fn hidden_opaque_type(&self, id: OpaqueTyId<I>) -> Ty<I> { self.tick("hidden_opaque_type"); self.inner.hidden_opaque_type(id) }
        fn impls_for_trait(&self, t: TraitId<I>, p: &[GenericArg<I>], b: &CanonicalVarKinds<I>) -> Vec<ImplId<I>> { self.tick("impls_for_trait"); self.inner.impls_for_trait(t, p, b) }
        fn local_impls_to_coherence_check(&self, t: TraitId<I>) -> Vec<ImplId<I>> { self.tick("local_impls"); self.inner.local_impls_to_coherence_check(t) }
        fn impl_provided_for(&self, t: TraitId<I>, ty: &TyKind<I>) -> bool { self.tick("impl_provided_for"); self.inner.impl_provided_for(t, ty) }
        fn well_known_trait_id(&self, w: WellKnownTrait) -> Option<TraitId<I>> { self.tick("well_known_trait_id"); self.inner.well_known_trait_id(w) }
        fn well_known_assoc_type_id(&self, w: WellKnownAssocType) -> Option<AssocTypeId<I>> { self.tick("well_known_assoc_type_id"); self.inner.well_known_assoc_type_id(w) }
        fn program_clauses_for_env(&self, e: &Environment<I>) -> ProgramClauses<I> { self.tick("program_clauses_for_env"); chalk_solve::program_clauses_for_env(self, e) }
        fn interner(&self) -> I { I }
        fn is_object_safe(&self, t: TraitId<I>) -> bool { self.tick("is_object_safe"); self.inner.is_object_safe(t) }
        fn closure_kind(&self, c: ClosureId<I>, s: &Substitution<I>) -> ClosureKind { self.tick("closure_kind"); self.inner.closure_kind(c, s) }
        fn closure_inputs_and_output(&self, c: ClosureId<I>, s: &Substitution<I>) -> Binders<FnDefInputsAndOutputDatum<I>> { self.tick("closure_io"); self.inner.closure_inputs_and_output(c, s) }
        fn closure_upvars(&self, c: ClosureId<I>, s: &Substitution<I>) -> Binders<Ty<I>> { self.tick("closure_upvars"); self.inner.closure_upvars(c, s) }
        fn closure_fn_substitution(&self, c: ClosureId<I>, s: &Substitution<I>) -> Substitution<I> { self.tick("closure_fn_subst"); self.inner.closure_fn_substitution(c, s) }
        fn unification_database(&self) -> &dyn UnificationDatabase<I> { self }
        fn discriminant_type(&self, ty: Ty<I>) -> Ty<I> { self.tick("discriminant_type"); self.inner.discriminant_type(ty) }
    }
}
