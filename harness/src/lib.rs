pub mod builtin;
pub mod drive;
pub mod gen;
pub mod model;
pub mod props;
pub mod refsem;
pub mod runner;
pub mod tape;
