//! ad-hoc probe: probe <program.chalk> <budget> <goal>...
use chalk_verif::drive::*;
fn main() {
    std::thread::Builder::new().stack_size(1 << 30).spawn(real_main).unwrap().join().unwrap();
}

fn real_main() {
    let args: Vec<String> = std::env::args().collect();
    install_panic_hook();
    let text = std::fs::read_to_string(&args[1]).unwrap();
    let budget: u64 = args[2].parse().unwrap();
    let program = lower_program(&text).unwrap();
    chalk_integration::tls::set_current_program(&program, || {
        for g in &args[3..] {
            let pe = parse_and_peel(&program, g).unwrap();
            for sv in Sv::BOTH {
                if std::env::var("ONLY").map(|o| o != sv.name()).unwrap_or(false) { continue; }
                let t0 = std::time::Instant::now();
                let (r, w) = solve_fresh(&*program, sv.choice(), &pe.goal, budget);
                println!("[{}] {} => {} (work {}, {:?})", sv.name(), g, render_run(&r), w, t0.elapsed());
            }
        }
    });
}
