use chalk_verif::props;
use chalk_verif::runner::*;
use std::path::PathBuf;
use std::process::{Command, Stdio};

const REPLAY_SHARD: usize = 9999;

/// Counting allocator: per-thread live heap bytes (used by the C27 check; negligible cost elsewhere).
struct Counting;
unsafe impl std::alloc::GlobalAlloc for Counting {
    unsafe fn alloc(&self, l: std::alloc::Layout) -> *mut u8 {
        let p = std::alloc::System.alloc(l);
        if !p.is_null() {
            let _ = props::c27::LIVE_BYTES.try_with(|c| c.set(c.get() + l.size() as isize));
            props::c27::track_alloc(p as usize, l.size(), l.align());
        }
        p
    }
    unsafe fn dealloc(&self, p: *mut u8, l: std::alloc::Layout) {
        let _ = props::c27::LIVE_BYTES.try_with(|c| c.set(c.get() - l.size() as isize));
        props::c27::track_dealloc(p as usize, l.size(), l.align());
        std::alloc::System.dealloc(p, l)
    }
    unsafe fn realloc(&self, p: *mut u8, l: std::alloc::Layout, new: usize) -> *mut u8 {
        let q = std::alloc::System.realloc(p, l, new);
        if !q.is_null() {
            props::c27::track_dealloc(p as usize, l.size(), l.align());
            props::c27::track_alloc(q as usize, new, l.align());
            let _ = props::c27::LIVE_BYTES.try_with(|c| c.set(c.get() + new as isize - l.size() as isize));
        }
        q
    }
}
#[global_allocator]
static ALLOC: Counting = Counting;

fn tier_of(s: &str) -> Tier {
    match s {
        "quick" => Tier::Quick,
        "thorough" => Tier::Thorough,
        o => {
            eprintln!("unknown tier {}", o);
            std::process::exit(2)
        }
    }
}

fn work_dir() -> PathBuf {
    let d = root().join("evidence").join(".work");
    let _ = std::fs::create_dir_all(&d);
    d
}

/// body of one worker process
fn worker<P: Property>(p: &P, tier: Tier, seed: u64, shard: usize, outfile: &str) {
    chalk_verif::drive::install_panic_hook();
    let res = if shard == REPLAY_SHARD { run_replays(p, tier) } else { run_shard(p, tier, seed, shard) };
    std::fs::write(outfile, serde_json::to_string(&res).unwrap()).unwrap();
}

fn replay<P: Property>(p: &P, tier: Tier, path: &str) -> i32 {
    chalk_verif::drive::install_panic_hook();
    let known = load_known();
    match replay_file(p, tier, std::path::Path::new(path)) {
        Err(e) => {
            eprintln!("cannot replay {}: {}", path, e);
            2
        }
        Ok(out) => {
            let mut code = 0;
            for f in &out.failures {
                if let Some(k) = known_for(&known, p.id(), &f.sig) {
                    println!("KNOWN-FINDING: property={} {} [{}]", p.id(), k.what, k.id);
                } else {
                    println!("--- failure [{}]\n{}", f.sig, f.msg);
                    println!("VIOLATION property={} replay={}", p.id(), path);
                    code = 1;
                }
            }
            if out.failures.is_empty() {
                println!("replay {}: property held", path);
            }
            code
        }
    }
}

fn parent<P: Property>(p: &P, tier: Tier) -> i32 {
    let t0 = std::time::Instant::now();
    let seed: u64 = std::env::var("VERIF_SEED").ok().and_then(|s| s.parse::<i64>().ok()).map(|v| v as u64).unwrap_or(0);
    let exe = std::env::current_exe().unwrap();
    let wd = work_dir();
    let par: usize = std::env::var("VERIF_JOBS").ok().and_then(|s| s.parse().ok()).unwrap_or(16);
    let limit_s: u64 = std::env::var("VERIF_SHARD_TIMEOUT").ok().and_then(|s| s.parse().ok()).unwrap_or(tier.pick(1500, 6 * 3600));
    let mut shards: Vec<usize> = vec![REPLAY_SHARD];
    shards.extend(0..NSHARDS);
    let mut total = ShardResult::default();
    let mut ok_shards = 0usize;
    let mut problems: Vec<String> = vec![];
    let mut queue = shards.into_iter();
    let mut running: Vec<(usize, std::process::Child, PathBuf, std::time::Instant)> = vec![];
    loop {
        while running.len() < par {
            match queue.next() {
                Some(s) => {
                    let out = wd.join(format!("{}-{}-{}.json", p.id(), tier.name(), s));
                    let _ = std::fs::remove_file(&out);
                    let child = Command::new(&exe)
                        .args(["--worker", p.id(), tier.name(), &seed.to_string(), &s.to_string(), out.to_str().unwrap()])
                        .stdout(Stdio::null())
                        .stderr(Stdio::piped())
                        .spawn()
                        .expect("spawn worker");
                    running.push((s, child, out, std::time::Instant::now()));
                }
                None => break,
            }
        }
        if running.is_empty() {
            break;
        }
        let mut i = 0;
        let mut progressed = false;
        while i < running.len() {
            let done = match running[i].1.try_wait() {
                Ok(Some(status)) => Some(status),
                Ok(None) => {
                    if running[i].3.elapsed().as_secs() > limit_s {
                        let _ = running[i].1.kill();
                        let _ = running[i].1.wait();
                        problems.push(format!("shard {} exceeded the {} s watchdog (inconclusive)", running[i].0, limit_s));
                        running.remove(i);
                        progressed = true;
                        continue;
                    }
                    None
                }
                Err(_) => None,
            };
            if let Some(status) = done {
                let (s, mut child, out, _) = running.remove(i);
                progressed = true;
                let mut err = String::new();
                if let Some(mut e) = child.stderr.take() {
                    use std::io::Read;
                    let _ = e.read_to_string(&mut err);
                }
                match std::fs::read_to_string(&out).ok().and_then(|t| serde_json::from_str::<ShardResult>(&t).ok()) {
                    Some(r) if status.success() => {
                        if let Some(a) = &r.aborted {
                            problems.push(format!("shard {}: {}", s, a));
                        }
                        ok_shards += 1;
                        total.merge(r);
                    }
                    _ => {
                        let inflight = inflight_path(p.id(), tier, s);
                        let desc = std::fs::read_to_string(&inflight).unwrap_or_default();
                        if p.crash_is_violation() && !desc.is_empty() && !status.success() && status.code() != Some(3) {
                            // the worker died on a signal / abort while running a case: for this property that is the violation
                            let dir = root().join("replays").join(p.id());
                            let _ = std::fs::create_dir_all(&dir);
                            let path = dir.join(format!("new-crash-{:016x}.json", hash_of(&desc)));
                            if let Ok(v) = serde_json::from_str::<serde_json::Value>(&desc) {
                                let rf = serde_json::json!({"property": p.id(), "signature": "worker-crash", "message": format!("worker died: {:?}", status), "description": v["description"], "case": v["case"]});
                                let _ = std::fs::write(&path, serde_json::to_string_pretty(&rf).unwrap());
                            }
                            total.violations.push(Violation { sig: "worker-crash".into(), msg: format!("worker process died ({:?}) while running the case:\n{}", status, desc.chars().take(3000).collect::<String>()), replay: path.to_string_lossy().to_string() });
                        } else {
                            problems.push(format!("shard {} died: {:?} {} | in-flight case: {}", s, status, err.lines().rev().take(3).collect::<Vec<_>>().join(" | "), desc.chars().take(600).collect::<String>()));
                        }
                    }
                }
                let _ = std::fs::remove_file(&out);
            } else {
                i += 1;
            }
        }
        if !progressed {
            std::thread::sleep(std::time::Duration::from_millis(20));
        }
    }
    let wall = t0.elapsed().as_secs_f64();
    let known = load_known();
    for (sig, (count, _)) in &total.known {
        if let Some(k) = known_for(&known, p.id(), sig) {
            println!("KNOWN-FINDING: property={} {} [{} x{}]", p.id(), k.what, k.id, count);
        } else {
            println!("UNLISTED (VERIF_NOSTOP development mode) x{} [{}]", count, sig);
        }
    }
    let note = if problems.is_empty() { "all shards completed".to_string() } else { problems.join("; ") };
    // the evidence schema wants >=2 distinct non-trivial cases; an honest smaller count is written as is
    let ev = evidence_json(p, tier, seed, &total, wall, ok_shards, &note);
    let evdir = root().join("evidence");
    let _ = std::fs::create_dir_all(&evdir);
    std::fs::write(evdir.join(format!("{}.json", p.id())), serde_json::to_string_pretty(&ev).unwrap()).unwrap();
    println!(
        "{} {}: cases={} evaluations={} distinct_nontrivial={} violations={} known={} wall={:.1}s",
        p.id(),
        tier.name(),
        total.cases,
        total.evaluations,
        total.nontrivial.len(),
        total.violations.len(),
        total.known.values().map(|v| v.0).sum::<u64>(),
        wall
    );
    let mut shown = std::collections::BTreeSet::new();
    for v in &total.violations {
        if shown.insert(v.sig.clone()) && shown.len() <= 6 {
            println!("--- failure [{}]\n{}", v.sig, v.msg);
        }
        println!("VIOLATION property={} replay={}", p.id(), v.replay);
    }
    if !total.violations.is_empty() {
        return 1;
    }
    if !problems.is_empty() {
        for pr in &problems {
            println!("INCONCLUSIVE: {}", pr);
        }
        return 2;
    }
    0
}

macro_rules! dispatch {
    ($id:expr, $f:ident, $($args:expr),*) => {
        match $id {
            "C01" => $f(&props::c01::C01, $($args),*),
            "C02" => $f(&props::c02::C02, $($args),*),
            "C03" => $f(&props::c03::C03, $($args),*),
            "C04" => $f(&props::c04::C04, $($args),*),
            "C05" => $f(&props::c05::C05, $($args),*),
            "C06" => $f(&props::c06::C06, $($args),*),
            "C07" => $f(&props::c07::C07, $($args),*),
            "C08" => $f(&props::c08::C08, $($args),*),
            "C09" => $f(&props::c09::C09, $($args),*),
            "C10" => $f(&props::c10::C10, $($args),*),
            "C14" => $f(&props::c14::C14, $($args),*),
            "C15" => $f(&props::c14::C15, $($args),*),
            "C16" => $f(&props::c16::C16, $($args),*),
            "C17" => $f(&props::c17::C17, $($args),*),
            "C18" => $f(&props::c18::C18, $($args),*),
            "C19" => $f(&props::c19::C19, $($args),*),
            "C20" => $f(&props::c20::C20, $($args),*),
            "C21" => $f(&props::c21::C21, $($args),*),
            "C22" => $f(&props::c22::C22, $($args),*),
            "C23" => $f(&props::c23::C23, $($args),*),
            "C24" => $f(&props::c24::C24, $($args),*),
            "C25" => $f(&props::c25::C25, $($args),*),
            "C26" => $f(&props::c26::C26, $($args),*),
            "C27" => $f(&props::c27::C27, $($args),*),
            "C28" => $f(&props::c28::C28, $($args),*),
            "C11" => $f(&props::c11::C11, $($args),*),
            "C12" => $f(&props::c12::C12, $($args),*),
            "C13" => $f(&props::c13::C13, $($args),*),
            "C29" => $f(&props::c29::C29, $($args),*),
            o => { eprintln!("unknown property {}", o); std::process::exit(2) }
        }
    };
}

fn main() {
    let args: Vec<String> = std::env::args().collect();
    if args.len() >= 7 && args[1] == "--worker" {
        let tier = tier_of(&args[3]);
        let seed: u64 = args[4].parse().unwrap();
        let shard: usize = args[5].parse().unwrap();
        let id = args[2].clone();
        let outfile = args[6].clone();
        // big stack: chalk recurses deeply on some inputs
        let h = std::thread::Builder::new().stack_size(1 << 30).spawn(move || dispatch!(id.as_str(), worker, tier, seed, shard, &outfile)).unwrap();
        if h.join().is_err() {
            std::process::exit(3);
        }
        return;
    }
    if args.len() >= 3 && args[1] == "--dump-c24-corpus" {
        match props::c24::dump_corpus(std::path::Path::new(&args[2])) {
            Ok(n) => println!("{} corpus files", n),
            Err(e) => {
                eprintln!("cannot write corpus: {}", e);
                std::process::exit(2);
            }
        }
        return;
    }
    if args.len() >= 4 && args[2] == "--replay" {
        let id = args[1].clone();
        let path = args[3].clone();
        let h = std::thread::Builder::new().stack_size(1 << 30).spawn(move || dispatch!(id.as_str(), replay, Tier::Quick, &path)).unwrap();
        std::process::exit(h.join().unwrap_or(2));
    }
    if args.len() >= 3 {
        let tier = tier_of(&args[2]);
        let code = dispatch!(args[1].as_str(), parent, tier);
        std::process::exit(code);
    }
    eprintln!("usage: check <ID> <quick|thorough> | check <ID> --replay <file>");
    std::process::exit(2);
}
