//! Engine: sharded proptest-driven search, known-finding triage, shrinking, replay files, evidence.
use crate::tape::Tape;
use proptest::prelude::*;
use proptest::test_runner::{Config, TestCaseError, TestError, TestRunner};
use serde::{de::DeserializeOwned, Deserialize, Serialize};
use serde_json::{json, Value};
use std::cell::RefCell;
use std::collections::{BTreeMap, BTreeSet};
use std::path::PathBuf;

#[derive(Clone, Copy, Debug, PartialEq, Eq)]
pub enum Tier {
    Quick,
    Thorough,
}

impl Tier {
    pub fn name(self) -> &'static str {
        match self {
            Tier::Quick => "quick",
            Tier::Thorough => "thorough",
        }
    }
    pub fn pick<T>(self, q: T, t: T) -> T {
        match self {
            Tier::Quick => q,
            Tier::Thorough => t,
        }
    }
}

pub const NSHARDS: usize = 32;

#[derive(Clone, Debug, Serialize, Deserialize)]
pub struct Failure {
    /// class signature, matched against known_findings.json
    pub sig: String,
    pub msg: String,
}

#[derive(Default)]
pub struct CaseOut {
    pub failures: Vec<Failure>,
    /// hashes of the distinct non-trivial sub-cases of this case
    pub nontrivial: Vec<u64>,
    /// evaluations contributed by this case
    pub evals: u64,
    pub counters: BTreeMap<String, u64>,
    pub sample: Option<Value>,
}

impl CaseOut {
    pub fn bump(&mut self, k: &str) {
        *self.counters.entry(k.to_string()).or_insert(0) += 1;
    }
    pub fn add(&mut self, k: &str, n: u64) {
        *self.counters.entry(k.to_string()).or_insert(0) += n;
    }
    pub fn max(&mut self, k: &str, n: u64) {
        let e = self.counters.entry(format!("max:{}", k)).or_insert(0);
        *e = (*e).max(n);
    }
    pub fn fail(&mut self, sig: impl Into<String>, msg: impl Into<String>) {
        self.failures.push(Failure { sig: sig.into(), msg: msg.into() });
    }
}

pub fn hash_of<T: std::hash::Hash>(t: &T) -> u64 {
    use std::hash::Hasher;
    // FNV-1a over the std Hash stream: stable across runs (no random keys)
    struct Fnv(u64);
    impl Hasher for Fnv {
        fn finish(&self) -> u64 {
            self.0
        }
        fn write(&mut self, bytes: &[u8]) {
            for b in bytes {
                self.0 ^= *b as u64;
                self.0 = self.0.wrapping_mul(0x100000001b3);
            }
        }
    }
    let mut h = Fnv(0xcbf29ce484222325);
    t.hash(&mut h);
    h.finish()
}

pub trait Property: Sync {
    type Case: Serialize + DeserializeOwned + Clone + std::fmt::Debug;
    fn id(&self) -> &'static str;
    fn level(&self) -> &'static str {
        "exploration"
    }
    fn rule(&self) -> String;
    fn assumptions(&self) -> Vec<String>;
    fn cases_per_shard(&self, tier: Tier) -> u32;
    fn tape_len(&self, _tier: Tier) -> usize {
        600
    }
    fn decode(&self, tape: &mut Tape, tier: Tier) -> Self::Case;
    fn run(&self, case: &Self::Case, tier: Tier) -> CaseOut;
    /// structurally smaller variants of a case (for shrinking after proptest's tape shrinking)
    fn shrink(&self, _case: &Self::Case) -> Vec<Self::Case> {
        vec![]
    }
    /// human-readable rendering stored next to the machine-readable case in replay files
    fn describe(&self, case: &Self::Case) -> Value;
    /// optional deterministic, non-random part (exhaustive enumerations); runs in shard 0
    fn fixed_part(&self, _tier: Tier) -> Option<CaseOut> {
        None
    }
    /// a worker process dying (signal, abort, stack overflow) while running a case is itself a violation
    fn crash_is_violation(&self) -> bool {
        false
    }
    /// whether the fixed part enumerates its finite space completely
    fn exhaustive(&self, _tier: Tier) -> bool {
        false
    }
}

// ------------------------------------------------------------------ known findings

#[derive(Clone, Debug, Deserialize)]
pub struct KnownFinding {
    pub id: String,
    pub properties: Vec<String>,
    pub signature: String,
    pub what: String,
}

#[derive(Clone, Debug, Deserialize, Default)]
pub struct KnownFile {
    #[serde(default)]
    pub findings: Vec<KnownFinding>,
    #[serde(default)]
    pub fixed: Vec<String>,
}

pub fn root() -> PathBuf {
    std::env::var("VERIF_ROOT").map(PathBuf::from).unwrap_or_else(|_| PathBuf::from("/verif"))
}

pub fn load_known() -> KnownFile {
    let p = root().join("known_findings.json");
    match std::fs::read_to_string(&p) {
        Ok(s) => serde_json::from_str(&s).unwrap_or_else(|e| panic!("known_findings.json does not parse: {}", e)),
        Err(_) => KnownFile::default(),
    }
}

pub fn known_for<'a>(k: &'a KnownFile, prop: &str, sig: &str) -> Option<&'a KnownFinding> {
    k.findings.iter().find(|f| f.signature == sig && f.properties.iter().any(|p| p == prop))
}

// ------------------------------------------------------------------ shard results

#[derive(Clone, Debug, Serialize, Deserialize, Default)]
pub struct Violation {
    pub sig: String,
    pub msg: String,
    pub replay: String,
}

#[derive(Clone, Debug, Serialize, Deserialize, Default)]
pub struct ShardResult {
    pub evaluations: u64,
    pub cases: u64,
    pub nontrivial: BTreeSet<u64>,
    pub counters: BTreeMap<String, u64>,
    pub samples: Vec<Value>,
    pub violations: Vec<Violation>,
    /// signature -> (count, first message)
    pub known: BTreeMap<String, (u64, String)>,
    pub wall_s: f64,
    pub aborted: Option<String>,
}

impl ShardResult {
    fn absorb(&mut self, out: &CaseOut, max_samples: usize) {
        self.cases += 1;
        self.evaluations += out.evals;
        self.nontrivial.extend(out.nontrivial.iter().copied());
        for (k, v) in &out.counters {
            if k.starts_with("max:") {
                let e = self.counters.entry(k.clone()).or_insert(0);
                *e = (*e).max(*v);
            } else {
                *self.counters.entry(k.clone()).or_insert(0) += v;
            }
        }
        if let Some(s) = &out.sample {
            if self.samples.len() < max_samples && !out.nontrivial.is_empty() {
                self.samples.push(s.clone());
            }
        }
    }
    pub fn merge(&mut self, o: ShardResult) {
        self.evaluations += o.evaluations;
        self.cases += o.cases;
        self.nontrivial.extend(o.nontrivial);
        for (k, v) in o.counters {
            if k.starts_with("max:") {
                let e = self.counters.entry(k).or_insert(0);
                *e = (*e).max(v);
            } else {
                *self.counters.entry(k).or_insert(0) += v;
            }
        }
        for s in o.samples {
            if self.samples.len() < 12 {
                self.samples.push(s);
            }
        }
        self.violations.extend(o.violations);
        for (k, (c, m)) in o.known {
            let e = self.known.entry(k).or_insert((0, m));
            e.0 += c;
        }
        self.wall_s = self.wall_s.max(o.wall_s);
        if self.aborted.is_none() {
            self.aborted = o.aborted;
        }
    }
}

fn mix(seed: u64, id: &str, shard: usize) -> [u8; 32] {
    let mut out = [0u8; 32];
    let mut x = hash_of(&(seed, id, shard as u64, 0x5eedu64));
    for chunk in out.chunks_mut(8) {
        x ^= x << 13;
        x ^= x >> 7;
        x ^= x << 17;
        chunk.copy_from_slice(&x.to_le_bytes());
    }
    out
}

#[derive(Serialize, Deserialize)]
pub struct ReplayFile {
    pub property: String,
    pub signature: String,
    pub message: String,
    pub description: Value,
    pub case: Value,
}

pub fn write_replay<P: Property>(p: &P, case: &P::Case, f: &Failure, prefix: &str) -> String {
    let dir = root().join("replays").join(p.id());
    let _ = std::fs::create_dir_all(&dir);
    let case_v = serde_json::to_value(case).unwrap();
    let h = hash_of(&(serde_json::to_string(&case_v).unwrap(), &f.sig));
    let path = dir.join(format!("{}-{:016x}.json", prefix, h));
    let rf = ReplayFile { property: p.id().into(), signature: f.sig.clone(), message: f.msg.clone(), description: p.describe(case), case: case_v };
    std::fs::write(&path, serde_json::to_string_pretty(&rf).unwrap()).unwrap();
    path.to_string_lossy().to_string()
}

/// split a case's failures into (unlisted, listed)
fn triage<'a>(known: &KnownFile, prop: &str, fs: &'a [Failure]) -> (Vec<&'a Failure>, Vec<&'a Failure>) {
    let mut un = vec![];
    let mut li = vec![];
    // development aid: VERIF_NOSTOP=1 counts every failure by signature instead of stopping at the first
    let nostop = std::env::var("VERIF_NOSTOP").is_ok();
    for f in fs {
        if nostop || known_for(known, prop, &f.sig).is_some() {
            li.push(f)
        } else {
            un.push(f)
        }
    }
    (un, li)
}

fn structural_shrink<P: Property>(p: &P, tier: Tier, known: &KnownFile, mut case: P::Case, sig: &str, budget: usize) -> (P::Case, Failure) {
    let find = |c: &P::Case| -> Option<Failure> {
        let out = p.run(c, tier);
        let (un, _) = triage(known, p.id(), &out.failures);
        un.into_iter().find(|f| f.sig == sig).cloned()
    };
    let mut best = find(&case).unwrap_or(Failure { sig: sig.to_string(), msg: "(failure not reproduced on re-run)".into() });
    let mut runs = 0;
    'outer: loop {
        for cand in p.shrink(&case) {
            if runs >= budget {
                break 'outer;
            }
            runs += 1;
            if let Some(f) = find(&cand) {
                case = cand;
                best = f;
                continue 'outer;
            }
        }
        break;
    }
    (case, best)
}

pub fn inflight_path(id: &str, tier: Tier, shard: usize) -> PathBuf {
    let d = root().join("evidence").join(".work");
    let _ = std::fs::create_dir_all(&d);
    d.join(format!("{}-{}-{}.inflight", id, tier.name(), shard))
}

pub fn run_shard<P: Property>(p: &P, tier: Tier, seed: u64, shard: usize) -> ShardResult {
    let t0 = std::time::Instant::now();
    let known = load_known();
    let mut res = ShardResult::default();
    if shard == 0 {
        if let Some(out) = p.fixed_part(tier) {
            res.absorb(&out, 4);
            let (un, li) = triage(&known, p.id(), &out.failures);
            for f in li {
                let e = res.known.entry(f.sig.clone()).or_insert((0, f.msg.clone()));
                e.0 += 1;
            }
            for f in un {
                res.violations.push(Violation { sig: f.sig.clone(), msg: f.msg.clone(), replay: format!("(fixed enumeration) {}", f.msg.chars().take(200).collect::<String>()) });
            }
        }
    }
    let cases = p.cases_per_shard(tier);
    if cases > 0 {
        let state = RefCell::new((&mut res, None::<String>));
        let config = Config { cases, failure_persistence: None, max_shrink_iters: 200, max_global_rejects: 1, ..Config::default() };
        // derive the full ChaCha seed from (VERIF_SEED, property, shard)
        let m = mix(seed, p.id(), shard);
        let mut runner = TestRunner::new_with_rng(config, proptest::test_runner::TestRng::from_seed(proptest::test_runner::RngAlgorithm::ChaCha, &m));
        let inflight = inflight_path(p.id(), tier, shard);
        let n = p.tape_len(tier);
        let strat = proptest::collection::vec(any::<u8>(), (n / 4)..=n);
        let result = runner.run(&strat, |tape| {
            let case = p.decode(&mut Tape::new(&tape), tier);
            // remember the in-flight case: if this process dies (stack overflow, OOM kill, abort),
            // the parent still knows which input did it
            let _ = std::fs::write(&inflight, serde_json::to_string(&serde_json::json!({"property": p.id(), "description": p.describe(&case), "case": serde_json::to_value(&case).unwrap()})).unwrap());
            let tc = std::time::Instant::now();
            let mut out = p.run(&case, tier);
            let ms = tc.elapsed().as_millis() as u64;
            out.max("case_ms", ms);
            if ms > 5000 {
                out.bump("cases_slower_than_5s");
                if std::env::var("VERIF_DEBUG").is_ok() {
                    eprintln!("SLOW CASE {} ms: {}", ms, p.describe(&case));
                }
            }
            let mut st = state.borrow_mut();
            let (un, li) = triage(&known, p.id(), &out.failures);
            if st.1.is_none() {
                // still searching (not shrinking): account for the case
                st.0.absorb(&out, 4);
                for f in li {
                    let e = st.0.known.entry(f.sig.clone()).or_insert((0, f.msg.clone()));
                    e.0 += 1;
                }
                if let Some(f) = un.first() {
                    st.1 = Some(f.sig.clone());
                    return Err(TestCaseError::fail(f.sig.clone()));
                }
                Ok(())
            } else {
                let target = st.1.clone().unwrap();
                if un.iter().any(|f| f.sig == target) {
                    Err(TestCaseError::fail(target))
                } else {
                    Ok(())
                }
            }
        });
        drop(state);
        match result {
            Ok(()) => {}
            Err(TestError::Fail(reason, tape)) => {
                let sig = reason.message().to_string();
                let case = p.decode(&mut Tape::new(&tape), tier);
                let (case, f) = structural_shrink(p, tier, &known, case, &sig, 200);
                let path = write_replay(p, &case, &f, "new");
                res.violations.push(Violation { sig: f.sig.clone(), msg: f.msg.clone(), replay: path });
            }
            Err(TestError::Abort(r)) => res.aborted = Some(format!("proptest aborted: {}", r.message())),
        }
    }
    let _ = std::fs::remove_file(inflight_path(p.id(), tier, shard));
    res.wall_s = t0.elapsed().as_secs_f64();
    res
}

/// Replay one file through the oracle (bypassing proptest). Returns the failures.
pub fn replay_file<P: Property>(p: &P, tier: Tier, path: &std::path::Path) -> Result<CaseOut, String> {
    let s = std::fs::read_to_string(path).map_err(|e| e.to_string())?;
    let rf: ReplayFile = serde_json::from_str(&s).map_err(|e| e.to_string())?;
    if rf.property != p.id() {
        return Err(format!("replay file is for {}", rf.property));
    }
    let case: P::Case = serde_json::from_value(rf.case).map_err(|e| e.to_string())?;
    Ok(p.run(&case, tier))
}

fn replay_signature(path: &std::path::Path) -> String {
    std::fs::read_to_string(path).ok().and_then(|s| serde_json::from_str::<ReplayFile>(&s).ok()).map(|r| r.signature).unwrap_or_default()
}

/// Replays every committed regression input of the property. Returns a shard-like result.
pub fn run_replays<P: Property>(p: &P, tier: Tier) -> ShardResult {
    let known = load_known();
    let mut res = ShardResult::default();
    let dir = root().join("replays").join(p.id());
    let mut files: Vec<PathBuf> = std::fs::read_dir(&dir).map(|d| d.filter_map(|e| e.ok()).map(|e| e.path()).filter(|p| p.extension().map(|x| x == "json").unwrap_or(false)).collect()).unwrap_or_default();
    files.sort();
    for f in files {
        match replay_file(p, tier, &f) {
            Ok(out) => {
                res.counters.entry("replayed_files".into()).and_modify(|c| *c += 1).or_insert(1);
                res.absorb(&out, 2);
                // Committed regression inputs (everything except the `new-*` files written at run time) hold on
                // the unchanged tree by construction, so for them ANY failure is a violation — also one whose
                // class is a recorded finding (a listed finding is identified by class *and* by the inputs on
                // which it shows; a committed input is one on which it does not).
                let committed = !f.file_name().map(|n| n.to_string_lossy().starts_with("new-")).unwrap_or(false);
                // the failure a committed input guards against: "regression-input" = any failure (hand-written
                // inputs), otherwise failures of the recorded class (solver and kind)
                let guarded = replay_signature(&f);
                let head = |s: &str| s.split(':').take(2).collect::<Vec<_>>().join(":");
                let is_strict = |x: &Failure| committed && (guarded == "regression-input" || head(&x.sig) == head(&guarded));
                let strict = committed;
                let (mut un, mut li) = (vec![], vec![]);
                for x in &out.failures {
                    if is_strict(x) || known_for(&known, p.id(), &x.sig).is_none() {
                        un.push(x)
                    } else {
                        li.push(x)
                    }
                }
                for x in li {
                    let e = res.known.entry(x.sig.clone()).or_insert((0, x.msg.clone()));
                    e.0 += 1;
                }
                for x in un {
                    res.violations.push(Violation { sig: if strict { format!("regression-input:{}", x.sig) } else { x.sig.clone() }, msg: x.msg.clone(), replay: f.to_string_lossy().to_string() });
                }
            }
            Err(e) => {
                res.counters.entry(format!("replay_unreadable:{}", e.chars().take(40).collect::<String>())).and_modify(|c| *c += 1).or_insert(1);
            }
        }
    }
    res
}

pub fn evidence_json<P: Property>(p: &P, tier: Tier, seed: u64, total: &ShardResult, wall: f64, shards_ok: usize, exit_note: &str) -> Value {
    let known_list: Vec<Value> = total.known.iter().map(|(k, (c, m))| json!({"signature": k, "count": c, "example": m})).collect();
    json!({
        "property_id": p.id(),
        "tier": tier.name(),
        "seed": seed,
        "level": p.level(),
        "coverage": {
            "evaluations": total.evaluations,
            "distinct_nontrivial": total.nontrivial.len(),
            "rule": p.rule(),
            "samples": total.samples,
            "cases": total.cases,
            "histogram": total.counters,
            "known_findings_observed": known_list,
            "shards_completed": shards_ok,
            "shards_total": NSHARDS,
            "exhaustive": p.exhaustive(tier),
            "note": exit_note,
        },
        "assumptions": p.assumptions(),
        "wall_s": wall,
        "violations": total.violations.len(),
    })
}
