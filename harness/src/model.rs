//! P-AST: an independent, small model of the chalk surface fragments used by the solver-level
//! properties (F-horn, F-auto, F-env, F-assoc, F-builtin), plus a printer to `.chalk` text.
use serde::{Deserialize, Serialize};
use std::fmt::Write;

#[derive(Clone, Copy, Debug, PartialEq, Eq, Hash, PartialOrd, Ord, Serialize, Deserialize)]
pub enum Bi {
    Tuple,
    Slice,
    Array(u8),
    Ref(bool),
    Raw(bool),
    /// last argument is the return type
    FnPtr,
    /// 0 i32, 1 u8, 2 usize, 3 f32, 4 bool, 5 char
    Scalar(u8),
    Str,
    Never,
    /// `dyn Trait` (trait index; only argument-free traits)
    Dyn(usize),
}

#[derive(Clone, Debug, PartialEq, Eq, Hash, PartialOrd, Ord, Serialize, Deserialize)]
pub enum Ty {
    Adt(usize, Vec<Ty>),
    Bi(Bi, Vec<Ty>),
    /// impl / struct / trait parameter
    Param(usize),
    /// goal variable (exists or forall), before instantiation
    QVar(usize),
    /// placeholder constant (universe, idx)
    Ph(usize, usize),
    /// canonical variable of an answer
    CVar(usize),
    /// `<args[0] as Trait<args[1..]>>::Assoc`  (trait idx, assoc idx)
    Proj(usize, usize, Vec<Ty>),
}

#[derive(Clone, Debug, PartialEq, Eq, Hash, PartialOrd, Ord, Serialize, Deserialize)]
pub struct TRef {
    pub tr: usize,
    /// args[0] = Self
    pub args: Vec<Ty>,
}

#[derive(Clone, Copy, Debug, PartialEq, Eq, Serialize, Deserialize)]
pub enum TraitKind {
    Inductive,
    Coinductive,
    Auto,
}

#[derive(Clone, Copy, Debug, PartialEq, Eq, Serialize, Deserialize)]
pub enum Lang {
    Sized,
    Copy,
    Clone,
    Tuple,
    FnPtr,
}

#[derive(Clone, Debug, Serialize, Deserialize)]
pub struct Ctor {
    pub name: String,
    pub arity: usize,
    pub is_enum: bool,
    /// variants (a struct has exactly one); field types over Param(i)
    pub variants: Vec<Vec<Ty>>,
    /// where-clauses on the type declaration, over Param(i)
    pub wcs: Vec<TRef>,
    pub upstream: bool,
    pub fundamental: bool,
}

impl Ctor {
    pub fn all_fields(&self) -> impl Iterator<Item = &Ty> {
        self.variants.iter().flat_map(|v| v.iter())
    }
}

#[derive(Clone, Debug, Serialize, Deserialize)]
pub struct TraitDef {
    pub name: String,
    /// number of parameters besides Self
    pub extra: usize,
    pub kind: TraitKind,
    /// where-clauses of the trait: over Param(0)=Self, Param(1..)=extra params
    pub supers: Vec<TRef>,
    pub lang: Option<Lang>,
    pub upstream: bool,
    pub marker: bool,
    pub non_enumerable: bool,
    /// associated type names (no generics), each with bounds `Assoc: Trait` (trait idx list)
    pub assocs: Vec<(String, Vec<usize>)>,
    /// where-clauses on associated types: (assoc idx, trait idx) printed as `type Assoc where Self: Trait;`
    /// (only C23 populates this: the differential oracle needs no reference semantics for it)
    #[serde(default)]
    pub assoc_wcs: Vec<(usize, usize)>,
}

#[derive(Clone, Debug, Serialize, Deserialize)]
pub struct ImplDef {
    pub nparams: usize,
    pub head: TRef,
    pub wcs: Vec<TRef>,
    pub positive: bool,
    /// one value per associated type of the trait (over Param(i))
    pub values: Vec<Ty>,
    pub upstream: bool,
}

#[derive(Clone, Debug, Default, Serialize, Deserialize)]
pub struct Program {
    pub ctors: Vec<Ctor>,
    pub traits: Vec<TraitDef>,
    pub impls: Vec<ImplDef>,
    /// impls list their associated type values in the reverse of the trait's declaration order (the order is not
    /// meaningful: values are matched to declarations by name)
    #[serde(default)]
    pub assoc_values_reversed: bool,
}

#[derive(Clone, Debug, Serialize, Deserialize)]
pub enum Prefix {
    Exists(Vec<usize>),
    Forall(Vec<usize>),
    If(Vec<Hyp>),
}

/// hypothesis inside `if (...)`
#[derive(Clone, Debug, PartialEq, Eq, Hash, PartialOrd, Ord, Serialize, Deserialize)]
pub enum Hyp {
    Holds(TRef),
    /// `FromEnv(Type)`
    FromEnvTy(Ty),
}

#[derive(Clone, Debug, Serialize, Deserialize)]
pub enum Lit {
    Holds(TRef),
    Eq(Ty, Ty),
    Not(Box<Lit>),
    /// forall<vars> { if (hyps) { lit } }  (inner, not peeled)
    Inner(Vec<usize>, Vec<Hyp>, Box<Lit>),
    /// Normalize(<..>::A -> ty)
    Normalize(Ty, Ty),
    /// `T: Trait<.., A = ty>`  (trait ref, assoc idx, ty)
    ProjEq(TRef, usize, Ty),
}

#[derive(Clone, Debug, Serialize, Deserialize)]
pub struct Goal {
    pub prefix: Vec<Prefix>,
    pub body: Vec<Lit>,
}

impl Ty {
    pub fn args(&self) -> &[Ty] {
        match self {
            Ty::Adt(_, a) | Ty::Bi(_, a) | Ty::Proj(_, _, a) => a,
            _ => &[],
        }
    }
    pub fn map_args(&self, f: &mut dyn FnMut(&Ty) -> Ty) -> Ty {
        match self {
            Ty::Adt(c, a) => Ty::Adt(*c, a.iter().map(|t| f(t)).collect()),
            Ty::Bi(b, a) => Ty::Bi(*b, a.iter().map(|t| f(t)).collect()),
            Ty::Proj(t, k, a) => Ty::Proj(*t, *k, a.iter().map(|t| f(t)).collect()),
            t => t.clone(),
        }
    }
    /// number of type nodes as chalk's size limit counts them (a `dyn Trait` also contains its
    /// bound's `Self` type)
    pub fn size(&self) -> usize {
        let own = if matches!(self, Ty::Bi(Bi::Dyn(_), _)) { 2 } else { 1 };
        own + self.args().iter().map(|t| t.size()).sum::<usize>()
    }
    pub fn depth(&self) -> usize {
        1 + self.args().iter().map(|t| t.depth()).max().unwrap_or(0)
    }
    pub fn any(&self, f: &dyn Fn(&Ty) -> bool) -> bool {
        f(self) || self.args().iter().any(|t| t.any(f))
    }
    pub fn has_ph(&self) -> bool {
        self.any(&|t| matches!(t, Ty::Ph(..)))
    }
    pub fn has_qvar(&self) -> bool {
        self.any(&|t| matches!(t, Ty::QVar(..)))
    }
    pub fn has_param(&self) -> bool {
        self.any(&|t| matches!(t, Ty::Param(..)))
    }
    pub fn has_proj(&self) -> bool {
        self.any(&|t| matches!(t, Ty::Proj(..)))
    }
    pub fn max_ph_universe(&self) -> usize {
        match self {
            Ty::Ph(u, _) => *u,
            t => t.args().iter().map(|t| t.max_ph_universe()).max().unwrap_or(0),
        }
    }
    pub fn subst_params(&self, s: &[Ty]) -> Ty {
        match self {
            Ty::Param(i) => s[*i].clone(),
            t => t.map_args(&mut |x| x.subst_params(s)),
        }
    }
    pub fn subst_qvars(&self, s: &[Option<Ty>]) -> Ty {
        match self {
            Ty::QVar(i) => s[*i].clone().unwrap_or_else(|| panic!("unassigned qvar {}", i)),
            t => t.map_args(&mut |x| x.subst_qvars(s)),
        }
    }
    pub fn collect_params(&self, used: &mut Vec<usize>) {
        match self {
            Ty::Param(i) => {
                if !used.contains(i) {
                    used.push(*i)
                }
            }
            t => t.args().iter().for_each(|x| x.collect_params(used)),
        }
    }
}

impl TRef {
    pub fn subst_params(&self, s: &[Ty]) -> TRef {
        TRef { tr: self.tr, args: self.args.iter().map(|t| t.subst_params(s)).collect() }
    }
    pub fn subst_qvars(&self, s: &[Option<Ty>]) -> TRef {
        TRef { tr: self.tr, args: self.args.iter().map(|t| t.subst_qvars(s)).collect() }
    }
    pub fn max_size(&self) -> usize {
        self.args.iter().map(|t| t.size()).max().unwrap_or(0)
    }
    pub fn has_ph(&self) -> bool {
        self.args.iter().any(|t| t.has_ph())
    }
}

impl Hyp {
    pub fn subst_qvars(&self, s: &[Option<Ty>]) -> Hyp {
        match self {
            Hyp::Holds(t) => Hyp::Holds(t.subst_qvars(s)),
            Hyp::FromEnvTy(t) => Hyp::FromEnvTy(t.subst_qvars(s)),
        }
    }
    pub fn has_ph(&self) -> bool {
        match self {
            Hyp::Holds(t) => t.has_ph(),
            Hyp::FromEnvTy(t) => t.has_ph(),
        }
    }
}

// ---------------------------------------------------------------- printer

pub struct Printer<'a> {
    pub p: &'a Program,
    /// Param(0) prints as Self inside trait where-clauses
    pub self_name: Option<&'a str>,
}

pub const SCALARS: [&str; 6] = ["i32", "u8", "usize", "f32", "bool", "char"];

impl<'a> Printer<'a> {
    fn list(&self, a: &[Ty]) -> String {
        a.iter().map(|x| self.ty(x)).collect::<Vec<_>>().join(", ")
    }
    pub fn ty(&self, t: &Ty) -> String {
        match t {
            Ty::Adt(c, a) => {
                let n = &self.p.ctors[*c].name;
                if a.is_empty() {
                    n.clone()
                } else {
                    format!("{}<{}>", n, self.list(a))
                }
            }
            Ty::Bi(b, a) => match b {
                Bi::Tuple => {
                    if a.len() == 1 {
                        format!("({},)", self.ty(&a[0]))
                    } else {
                        format!("({})", self.list(a))
                    }
                }
                Bi::Slice => format!("[{}]", self.ty(&a[0])),
                Bi::Array(n) => format!("[{}; {}]", self.ty(&a[0]), n),
                Bi::Ref(m) => format!("&'static {}{}", if *m { "mut " } else { "" }, self.ty(&a[0])),
                Bi::Raw(m) => format!("*{} {}", if *m { "mut" } else { "const" }, self.ty(&a[0])),
                Bi::FnPtr => format!("fn({}) -> {}", self.list(&a[..a.len() - 1]), self.ty(&a[a.len() - 1])),
                Bi::Scalar(k) => SCALARS[*k as usize % SCALARS.len()].to_string(),
                Bi::Str => "str".into(),
                Bi::Never => "!".into(),
                Bi::Dyn(tr) => format!("dyn {} + 'static", self.p.traits[*tr].name),
            },
            Ty::Param(0) if self.self_name.is_some() => self.self_name.unwrap().to_string(),
            Ty::Param(i) => format!("P{}", i),
            Ty::QVar(i) => format!("X{}", i),
            Ty::Ph(u, i) => format!("!{}_{}", u, i),
            Ty::CVar(i) => format!("^{}", i),
            Ty::Proj(tr, k, a) => {
                let t = &self.p.traits[*tr];
                let targs = if a.len() > 1 { format!("<{}>", self.list(&a[1..])) } else { String::new() };
                format!("<{} as {}{}>::{}", self.ty(&a[0]), t.name, targs, t.assocs[*k].0)
            }
        }
    }
    pub fn tref(&self, t: &TRef) -> String {
        let tr = &self.p.traits[t.tr];
        if t.args.len() > 1 {
            format!("{}: {}<{}>", self.ty(&t.args[0]), tr.name, self.list(&t.args[1..]))
        } else {
            format!("{}: {}", self.ty(&t.args[0]), tr.name)
        }
    }
    pub fn hyp(&self, h: &Hyp) -> String {
        match h {
            Hyp::Holds(t) => self.tref(t),
            Hyp::FromEnvTy(t) => format!("FromEnv({})", self.ty(t)),
        }
    }
}

fn params(n: usize, from: usize) -> String {
    if n > 0 {
        format!("<{}>", (from..from + n).map(|i| format!("P{}", i)).collect::<Vec<_>>().join(", "))
    } else {
        String::new()
    }
}

pub fn print_ctor(p: &Program, c: &Ctor) -> String {
    let pr = Printer { p, self_name: None };
    let mut s = String::new();
    if c.upstream {
        s.push_str("#[upstream] ");
    }
    if c.fundamental {
        s.push_str("#[fundamental] ");
    }
    let wc = if c.wcs.is_empty() { String::new() } else { format!(" where {}", c.wcs.iter().map(|x| pr.tref(x)).collect::<Vec<_>>().join(", ")) };
    if c.is_enum {
        let vs = c
            .variants
            .iter()
            .enumerate()
            .map(|(vi, v)| {
                if v.is_empty() {
                    format!("V{}", vi)
                } else {
                    format!("V{} {{ {} }}", vi, v.iter().enumerate().map(|(i, f)| format!("f{}: {}", i, pr.ty(f))).collect::<Vec<_>>().join(", "))
                }
            })
            .collect::<Vec<_>>()
            .join(", ");
        write!(s, "enum {}{}{} {{ {} }}", c.name, params(c.arity, 0), wc, vs).unwrap();
    } else {
        let fields = c.variants.get(0).map(|v| v.iter().enumerate().map(|(i, f)| format!("f{}: {}", i, pr.ty(f))).collect::<Vec<_>>().join(", ")).unwrap_or_default();
        write!(s, "struct {}{}{} {{ {} }}", c.name, params(c.arity, 0), wc, fields).unwrap();
    }
    s
}

pub fn print_trait(p: &Program, t: &TraitDef) -> String {
    let prs = Printer { p, self_name: Some("Self") };
    let mut attr = String::new();
    match t.kind {
        TraitKind::Inductive => {}
        TraitKind::Coinductive => attr.push_str("#[coinductive] "),
        TraitKind::Auto => attr.push_str("#[auto] "),
    }
    if t.upstream {
        attr.push_str("#[upstream] ");
    }
    if t.marker {
        attr.push_str("#[marker] ");
    }
    if t.non_enumerable {
        attr.push_str("#[non_enumerable] ");
    }
    if let Some(l) = t.lang {
        attr.push_str(match l {
            Lang::Sized => "#[lang(sized)] ",
            Lang::Copy => "#[lang(copy)] ",
            Lang::Clone => "#[lang(clone)] ",
            Lang::Tuple => "#[lang(tuple_trait)] ",
            Lang::FnPtr => "#[lang(fn_ptr_trait)] ",
        });
    }
    let wc = if t.supers.is_empty() { String::new() } else { format!(" where {}", t.supers.iter().map(|x| prs.tref(x)).collect::<Vec<_>>().join(", ")) };
    let assocs = t
        .assocs
        .iter()
        .enumerate()
        .map(|(k, (n, bs))| {
            let b = if bs.is_empty() { String::new() } else { format!(": {}", bs.iter().map(|b| p.traits[*b].name.clone()).collect::<Vec<_>>().join(" + ")) };
            let ws: Vec<String> = t.assoc_wcs.iter().filter(|(a, _)| *a == k).map(|(_, tr)| format!("Self: {}", p.traits[*tr].name)).collect();
            let w = if ws.is_empty() { String::new() } else { format!(" where {}", ws.join(", ")) };
            format!("type {}{}{}; ", n, b, w)
        })
        .collect::<String>();
    format!("{}trait {}{}{} {{ {}}}", attr, t.name, params(t.extra, 1), wc, assocs)
}

pub fn print_impl(p: &Program, im: &ImplDef) -> String {
    let pr = Printer { p, self_name: None };
    let tr = &p.traits[im.head.tr];
    let targs = if im.head.args.len() > 1 { format!("<{}>", pr.list(&im.head.args[1..])) } else { String::new() };
    let wc = if im.wcs.is_empty() { String::new() } else { format!(" where {}", im.wcs.iter().map(|x| pr.tref(x)).collect::<Vec<_>>().join(", ")) };
    let mut vals: Vec<String> = im.values.iter().enumerate().map(|(k, v)| format!("type {} = {}; ", tr.assocs[k].0, pr.ty(v))).collect();
    if p.assoc_values_reversed {
        vals.reverse();
    }
    let vals = vals.concat();
    format!(
        "{}impl{} {}{}{} for {}{} {{ {}}}",
        if im.upstream { "#[upstream] " } else { "" },
        params(im.nparams, 0),
        if im.positive { "" } else { "!" },
        tr.name,
        targs,
        pr.ty(&im.head.args[0]),
        wc,
        vals
    )
}

pub fn print_program(p: &Program) -> String {
    let mut s = String::new();
    for c in &p.ctors {
        writeln!(s, "{}", print_ctor(p, c)).unwrap();
    }
    for t in &p.traits {
        writeln!(s, "{}", print_trait(p, t)).unwrap();
    }
    for im in &p.impls {
        writeln!(s, "{}", print_impl(p, im)).unwrap();
    }
    s
}

/// Items in a caller-chosen order (C13): entries are (kind, index) with kind 0 ctor, 1 trait, 2 impl.
pub fn print_program_ordered(p: &Program, order: &[(u8, usize)]) -> String {
    let mut s = String::new();
    for (k, i) in order {
        match k {
            0 => writeln!(s, "{}", print_ctor(p, &p.ctors[*i])).unwrap(),
            1 => writeln!(s, "{}", print_trait(p, &p.traits[*i])).unwrap(),
            _ => writeln!(s, "{}", print_impl(p, &p.impls[*i])).unwrap(),
        }
    }
    s
}

pub fn print_lit(p: &Program, l: &Lit) -> String {
    let pr = Printer { p, self_name: None };
    match l {
        Lit::Holds(t) => pr.tref(t),
        Lit::Eq(a, b) => format!("{} = {}", pr.ty(a), pr.ty(b)),
        Lit::Not(g) => format!("not {{ {} }}", print_lit(p, g)),
        Lit::Inner(vars, hyps, g) => {
            let mut inner = print_lit(p, g);
            if !hyps.is_empty() {
                inner = format!("if ({}) {{ {} }}", hyps.iter().map(|h| pr.hyp(h)).collect::<Vec<_>>().join("; "), inner);
            }
            if !vars.is_empty() {
                inner = format!("forall<{}> {{ {} }}", vars.iter().map(|v| format!("X{}", v)).collect::<Vec<_>>().join(", "), inner);
            }
            inner
        }
        Lit::Normalize(a, b) => format!("Normalize({} -> {})", pr.ty(a), pr.ty(b)),
        Lit::ProjEq(t, k, ty) => {
            let tr = &p.traits[t.tr];
            let mut inner: Vec<String> = t.args[1..].iter().map(|x| pr.ty(x)).collect();
            inner.push(format!("{} = {}", tr.assocs[*k].0, pr.ty(ty)));
            format!("{}: {}<{}>", pr.ty(&t.args[0]), tr.name, inner.join(", "))
        }
    }
}

pub fn print_goal(p: &Program, g: &Goal) -> String {
    let pr = Printer { p, self_name: None };
    let mut s = g.body.iter().map(|l| print_lit(p, l)).collect::<Vec<_>>().join(", ");
    for pf in g.prefix.iter().rev() {
        s = match pf {
            Prefix::Exists(v) => format!("exists<{}> {{ {} }}", v.iter().map(|x| format!("X{}", x)).collect::<Vec<_>>().join(", "), s),
            Prefix::Forall(v) => format!("forall<{}> {{ {} }}", v.iter().map(|x| format!("X{}", x)).collect::<Vec<_>>().join(", "), s),
            Prefix::If(h) => format!("if ({}) {{ {} }}", h.iter().map(|x| pr.hyp(x)).collect::<Vec<_>>().join("; "), s),
        };
    }
    s
}

pub fn goal_num_vars(g: &Goal) -> usize {
    fn lit(l: &Lit, m: &mut usize) {
        match l {
            Lit::Not(x) => lit(x, m),
            Lit::Inner(vs, _, x) => {
                for v in vs {
                    *m = (*m).max(*v + 1)
                }
                lit(x, m)
            }
            _ => {}
        }
    }
    let mut m = 0;
    for p in &g.prefix {
        match p {
            Prefix::Exists(v) | Prefix::Forall(v) => {
                for x in v {
                    m = m.max(*x + 1)
                }
            }
            _ => {}
        }
    }
    for l in &g.body {
        lit(l, &mut m)
    }
    m
}

/// Placement of the peeled prefix: which variables are existential (with the universe they can
/// see), which are placeholders, which hypotheses are in scope.
pub struct Layout {
    /// (qvar id, universe)
    pub exvars: Vec<(usize, usize)>,
    /// (qvar id, placeholder)
    pub phs: Vec<(usize, Ty)>,
    /// still containing QVars
    pub hyps: Vec<Hyp>,
    pub last_universe: usize,
}

pub fn layout(g: &Goal) -> Layout {
    let mut u = 0;
    let mut l = Layout { exvars: vec![], phs: vec![], hyps: vec![], last_universe: 0 };
    for p in &g.prefix {
        match p {
            Prefix::Exists(vs) => {
                for v in vs {
                    l.exvars.push((*v, u));
                }
            }
            Prefix::Forall(vs) => {
                if !vs.is_empty() {
                    u += 1;
                }
                for (i, v) in vs.iter().enumerate() {
                    l.phs.push((*v, Ty::Ph(u, i)));
                }
            }
            Prefix::If(h) => l.hyps.extend(h.iter().cloned()),
        }
    }
    l.last_universe = u;
    l
}
