//! C10 — answers do not depend on what the same solver solved before; cache on/off agree.
use super::common::*;
use crate::drive::*;
use crate::gen::*;
use crate::runner::*;
use crate::tape::Tape;
use serde::{Deserialize, Serialize};
use serde_json::{json, Value};

pub struct C10;

#[derive(Clone, Debug, Serialize, Deserialize)]
pub struct Case {
    pub pg: PG,
    /// indices into pg.goals, with repetitions
    pub history: Vec<usize>,
    /// positions of the history at which the goal is first enumerated with solve_multiple on the same instance
    /// (SLG only; answers are then cached ahead of the aggregating solve)
    #[serde(default)]
    pub drain: Vec<usize>,
}

/// `Unique` whose substitution maps every variable to a distinct canonical variable (trivially true answer)
pub fn is_trivial_unique(r: &str) -> bool {
    if !r.starts_with("Unique") {
        return false;
    }
    match r.find('[') {
        None => true,
        Some(i) => {
            let inner = &r[i + 1..r.rfind(']').unwrap_or(r.len())];
            inner.split(", ").all(|e| e.split(" := ").nth(1).map(|v| v.trim().starts_with('^') && !v.contains('<')).unwrap_or(true))
        }
    }
}

fn subst_part(r: &str) -> Option<&str> {
    let i = r.find('[')?;
    let j = r.rfind(']')?;
    Some(&r[i..=j])
}

/// one answer is `Unique σ`, the other `Ambiguous` with guidance exactly σ, or without guidance while σ is
/// trivial: the ambiguous answer is a weakening that is compatible with the unique one
pub fn is_weakening(a: &str, b: &str) -> bool {
    let (u, w) = if a.starts_with("Unique") { (a, b) } else { (b, a) };
    if !u.starts_with("Unique") || !w.starts_with("Ambiguous") {
        return false;
    }
    if w.contains("no inference guidance") {
        return is_trivial_unique(u);
    }
    match (subst_part(u), subst_part(w)) {
        (Some(x), Some(y)) => x == y || unshares(y, x),
        (None, None) => true,
        _ => false,
    }
}

/// `general` becomes `special` when its canonical variables are renamed by a (not necessarily injective) function:
/// the guidance only lost variable sharing (`[V<^0.0>, ^0.1]` vs `[V<^0.0>, ^0.0]`), which anti-unification may do
fn unshares(general: &str, special: &str) -> bool {
    fn toks(s: &str) -> Vec<String> {
        let b = s.as_bytes();
        let mut out = vec![];
        let mut i = 0;
        while i < b.len() {
            if b[i] == b'^' {
                let mut j = i + 1;
                while j < b.len() && (b[j].is_ascii_digit() || b[j] == b'.') {
                    j += 1;
                }
                out.push(s[i..j].to_string());
                i = j;
            } else {
                out.push((b[i] as char).to_string());
                i += 1;
            }
        }
        out
    }
    let (g, sp) = (toks(general), toks(special));
    if g.len() != sp.len() {
        return false;
    }
    let mut map: Vec<(String, String)> = vec![];
    for (a, b) in g.iter().zip(&sp) {
        if a.starts_with('^') {
            if !b.starts_with('^') {
                return false;
            }
            match map.iter().find(|(k, _)| k == a) {
                Some((_, v)) if v != b => return false,
                Some(_) => {}
                None => map.push((a.clone(), b.clone())),
            }
        } else if a != b {
            return false;
        }
    }
    true
}

/// rendered `Ambiguous; definite substitution` whose guidance uses one canonical variable twice
pub fn definite_with_repeated_var(r: &str) -> bool {
    if !r.starts_with("Ambiguous; definite") {
        return false;
    }
    let sub = match subst_part(r) {
        Some(s) => s,
        None => return false,
    };
    let mut seen: Vec<&str> = vec![];
    let mut i = 0;
    let b = sub.as_bytes();
    while i < b.len() {
        if b[i] == b'^' {
            let mut j = i + 1;
            while j < b.len() && (b[j].is_ascii_digit() || b[j] == b'.') {
                j += 1;
            }
            let tok = &sub[i..j];
            if seen.contains(&tok) {
                return true;
            }
            seen.push(tok);
            i = j;
        } else {
            i += 1;
        }
    }
    false
}

/// classification of a difference between two rendered answers
pub fn diff_class(a: &str, b: &str) -> String {
    if definite_with_repeated_var(a) != definite_with_repeated_var(b) {
        return "definite-guidance-with-repeated-var".into();
    }
    for x in [a, b] {
        if let Some(m) = x.strip_prefix("<PANIC ") {
            return format!("panic:{}", m.trim_end_matches('>'));
        }
    }
    if is_weakening(a, b) {
        return "unique-weakened-to-ambiguous".into();
    }
    let k = |s: &str| -> &'static str {
        if s.starts_with("Unique") {
            "unique"
        } else if s.starts_with("Ambiguous; definite") {
            "definite"
        } else if s.starts_with("Ambiguous") {
            "ambiguous"
        } else if s.starts_with("No possible") {
            "none"
        } else {
            "other"
        }
    };
    format!("{}-vs-{}", k(a), k(b))
}

impl Property for C10 {
    type Case = Case;
    fn id(&self) -> &'static str {
        "C10"
    }
    fn rule(&self) -> String {
        "case = generated program (F-horn, auto/coinductive traits) with 3-6 goals and a history (sequence over the goals with repetitions, length <= 14; at a fifth of the positions the goal is first enumerated with solve_multiple on the same SLG instance; a quarter of the programs are fact-rich so that tables hold several cached answers) posed to ONE solver instance; per solver configuration (SLG, recursive cache on, recursive cache off on non-growing programs) every answer of the history must render identically to a fresh solver's answer for that goal, and fresh cache-on/cache-off answers must agree. Non-trivial = history position where the goal was already solved before on this instance or follows a different goal sharing a trait with it; distinct by hash of (program, goal, position, prefix of the history, configuration).".into()
    }
    fn assumptions(&self) -> Vec<String> {
        vec!["answers compared as rendered strings with constraints sorted (as tests/test/mod.rs does)".into(), "a history is abandoned after a panic/budget excess of the used solver (its state is then out of contract; C12 covers recovery)".into()]
    }
    fn cases_per_shard(&self, tier: Tier) -> u32 {
        tier.pick(600, 6000)
    }
    fn decode(&self, t: &mut Tape, _tier: Tier) -> Case {
        let cfg = if t.chance(55) { GenCfg::horn_auto() } else { GenCfg::horn() };
        let ng = 3 + t.choose(4);
        // shape knob: fact-rich programs whose goals have many answers (tables with several cached answers)
        let pg = if t.chance(25) {
            let program = super::c03::gen_enum_program(t);
            let goals = (0..ng).map(|_| super::c03::gen_enum_goal(t, &program)).collect();
            PG { program, goals }
        } else {
            super::c01::decode_pg(t, &cfg, &GoalCfg::full(), ng)
        };
        let len = 3 + t.choose(12);
        let history: Vec<usize> = (0..len).map(|_| t.choose(ng)).collect();
        let drain = (0..len).filter(|_| t.chance(20)).collect();
        Case { pg, history, drain }
    }
    fn describe(&self, c: &Case) -> Value {
        let mut v = c.pg.describe();
        v["history"] = json!(c.history);
        v
    }
    fn shrink(&self, c: &Case) -> Vec<Case> {
        let mut out = vec![];
        for i in 0..c.history.len() {
            let mut q = c.clone();
            q.history.remove(i);
            q.drain = c.drain.iter().filter(|d| **d != i).map(|d| if *d > i { *d - 1 } else { *d }).collect();
            out.push(q);
        }
        for i in 0..c.drain.len() {
            let mut q = c.clone();
            q.drain.remove(i);
            out.push(q);
        }
        for p in shrink_program(&c.pg.program) {
            if c.pg.goals.iter().all(|g| goal_traits_ok(g, p.traits.len())) {
                out.push(Case { pg: PG { program: p, goals: c.pg.goals.clone() }, history: c.history.clone(), drain: c.drain.clone() });
            }
        }
        for (i, g) in c.pg.goals.iter().enumerate() {
            for g2 in shrink_goal(g) {
                let mut q = c.clone();
                q.pg.goals[i] = g2;
                out.push(q);
            }
        }
        out
    }
    fn run(&self, case: &Case, _tier: Tier) -> CaseOut {
        let mut out = CaseOut::default();
        let low = match lower_pg(&case.pg, &mut out) {
            Some(l) => l,
            None => return out,
        };
        let ng = non_growing(&case.pg.program);
        let fin = finite_answers(&case.pg.program);
        let mut configs = vec![Sv::Slg, Sv::Rec];
        if ng {
            configs.push(Sv::RecNoCache);
        }
        with_program(&low, || {
            let mut fresh_all: Vec<Vec<Option<String>>> = vec![];
            for sv in &configs {
                // fresh answers
                let mut fresh_sols: Vec<Option<Option<chalk_solve::Solution<chalk_integration::interner::ChalkIr>>>> = vec![];
                let fresh: Vec<Option<String>> = low
                    .goals
                    .iter()
                    .map(|lg| {
                        let r = (|| {
                            let lg = lg.as_ref()?;
                            out.evals += 1;
                            match solve_fresh(&*low.program, sv.choice(), &lg.peeled.goal, DEFAULT_BUDGET).0 {
                                Run::Done(s) => Some(s),
                                _ => None, // panics/budget on fresh solvers are judged by C01/C09
                            }
                        })();
                        fresh_sols.push(r.clone());
                        r.map(|s| render(&s))
                    })
                    .collect();
                let mut solver = sv.choice().into_solver();
                let mut seen: Vec<usize> = vec![];
                for (pos, gi) in case.history.iter().enumerate() {
                    let lg = match low.goals.get(*gi).and_then(|x| x.as_ref()) {
                        Some(x) => x,
                        None => continue,
                    };
                    out.evals += 1;
                    if *sv == Sv::Slg && case.drain.contains(&pos) {
                        // enumerate (up to 12 answers) on the same instance first
                        let mut n = 0;
                        let (r, _) = guarded(DEFAULT_BUDGET, || {
                            solver.solve_multiple(&*low.program, &lg.peeled.goal, &mut |res, has_next| {
                                n += 1;
                                has_next && n < 12 && !matches!(res, chalk_solve::SubstitutionResult::Floundered)
                            })
                        });
                        out.bump("slg:drained_before_solve");
                        if !matches!(r, Run::Done(_)) {
                            out.bump("slg:history_abandoned(enumeration overflow/budget/panic)");
                            break;
                        }
                    }
                    let (run, _) = solve_with(&mut *solver, &*low.program, &lg.peeled.goal, DEFAULT_BUDGET);
                    let mut got_sol = None;
                    let got = match run {
                        Run::Done(s) => {
                            let r = render(&s);
                            got_sol = Some(s);
                            r
                        }
                        Run::Overflow | Run::Budget => {
                            out.bump(&format!("{}:history_abandoned(overflow/budget)", sv.name()));
                            break;
                        }
                        Run::Panic(m) => {
                            if fresh[*gi].is_some() {
                                out.fail(format!("{}:panic-only-with-history:{}", sv.name(), m), format!("[{}] goal `{}` panics on a used solver ({}) but not on a fresh one\n{}history: {:?}", sv.name(), lg.text, m, low.text, &case.history[..=pos]));
                            }
                            break;
                        }
                    };
                    let exp = match &fresh[*gi] {
                        Some(e) => e,
                        None => break,
                    };
                    if &got != exp {
                        let st = crate::refsem::solution_sets(&case.pg.program, &case.pg.goals[*gi], 2, 50).st;
                        let mut dc = diff_class(exp, &got);
                        // Goals whose answer set is unbounded (growing where-clauses, or unknowns over impls that
                        // generate ever larger answers) are cut off by the size limit at a point that depends on
                        // what is already tabled: if the two answers merely differ in precision (they do not
                        // contradict each other in the sense of C04) this is the recorded truncation finding.
                        let within = ng && (goal_is_closed(&case.pg.goals[*gi]) || fin);
                        if !within && !dc.contains("repeated-var") {
                            let names = Names { program: &low.program, model: &case.pg.program };
                            let fresh_sol = fresh_sols[*gi].clone();
                            if let (Some(f), Some(g)) = (fresh_sol, got_sol.clone()) {
                                if super::c04::incompatible(&names, &lg.peeled, &f, &g, &mut out).is_none() {
                                    dc = "precision-only:unbounded-answers".into();
                                }
                            }
                        }
                        let co = if st.co_cycle && !dc.contains("repeated-var") && !dc.contains("unbounded") { ":coinductive-cycle" } else { "" };
                        // recursive solver, hypotheses over traits with parameters: the recorded finding (its Ambiguous / Unique
                        // also depends on what is cached)
                        let co = if co.is_empty() && *sv != Sv::Slg && !dc.contains("unbounded") { env_qual(&case.pg.goals[*gi], &case.pg.program) } else { co };
                        out.fail(
                            format!("{}:history-differs:{}{}", sv.name(), dc, co),
                            format!("[{}] goal `{}` at history position {}: fresh solver says `{}`, used solver says `{}`\n{}history (goal texts): {:?}", sv.name(), lg.text, pos, exp, got, low.text, case.history[..=pos].iter().map(|i| low.goals[*i].as_ref().map(|g| g.text.clone()).unwrap_or_default()).collect::<Vec<_>>()),
                        );
                        break;
                    }
                    if pos > 0 {
                        out.nontrivial.push(hash_of(&(&low.text, &lg.text, &case.history[..=pos], sv.name())));
                        if out.sample.is_none() && seen.contains(gi) {
                            out.sample = Some(json!({"program": low.text, "history": case.history[..=pos].iter().map(|i| low.goals[*i].as_ref().map(|g| g.text.clone())).collect::<Vec<_>>(), "solver": sv.name(), "answer": got}));
                        }
                    }
                    seen.push(*gi);
                }
                fresh_all.push(fresh);
            }
            // cache on vs cache off (fresh)
            if configs.len() == 3 {
                for gi in 0..low.goals.len() {
                    if let (Some(a), Some(b)) = (&fresh_all[1][gi], &fresh_all[2][gi]) {
                        if a != b {
                            // unbounded answer sets: where the search is cut off depends on what is cached (recorded finding)
                            let unbounded = !(goal_is_closed(&case.pg.goals[gi]) || fin);
                            let mut dc = if unbounded && (a.starts_with("Ambiguous") || b.starts_with("Ambiguous")) { "precision-only:unbounded-answers".to_string() } else { diff_class(a, b) };
                            // hypotheses over traits with parameters: the recorded recursive-solver finding (elaboration introduces an existential)
                            if !dc.contains("unbounded") {
                                dc.push_str(env_qual(&case.pg.goals[gi], &case.pg.program));
                            }
                            out.fail(format!("rec:cache-on-off-differ:{}", dc), format!("recursive solver, goal `{}`: cache on `{}` vs cache off `{}`\n{}", low.goals[gi].as_ref().unwrap().text, a, b, low.text));
                        }
                    }
                }
            }
        });
        out
    }
}
