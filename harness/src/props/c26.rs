//! C26 — type flags summarise a type's contents accurately.
use crate::bir::flags::*;
use crate::bir::*;
use crate::runner::*;
use crate::tape::Tape;
use serde::{Deserialize, Serialize};
use serde_json::{json, Value};

pub struct C26;

#[derive(Clone, Debug, Serialize, Deserialize)]
pub struct Case {
    pub ty: BT,
}

const NAMES: [&str; 16] = [
    "HAS_TY_INFER", "HAS_RE_INFER", "HAS_CT_INFER", "HAS_TY_PLACEHOLDER", "HAS_RE_PLACEHOLDER", "HAS_CT_PLACEHOLDER", "HAS_FREE_LOCAL_REGIONS", "HAS_TY_PROJECTION", "HAS_TY_OPAQUE", "HAS_CT_PROJECTION", "HAS_ERROR", "HAS_RE_ERROR",
    "HAS_FREE_REGIONS", "HAS_RE_LATE_BOUND", "HAS_RE_ERASED", "STILL_FURTHER_SPECIALIZABLE",
];

fn names(bits: u16) -> Vec<&'static str> {
    (0..16).filter(|i| bits & (1 << i) != 0).map(|i| NAMES[i]).collect()
}

impl Property for C26 {
    type Case = Case;
    fn id(&self) -> &'static str {
        "C26"
    }
    fn rule(&self) -> String {
        "case = a generated type of depth <= 5 over every TyKind (ADT, associated type, opaque type placeholder, fn def, tuple, array, slice, raw pointer, reference, scalar, str, never, foreign, error, placeholder, dyn with Implemented / AliasEq / LifetimeOutlives / TypeOutlives bounds, projection and opaque aliases, bound variables, inference variables of three kinds, fn pointers) with lifetimes of every kind (static, erased, error, bound, placeholder, inference) and consts of every kind (value, bound, placeholder, inference; const types usize, a placeholder type, the error type, an opaque alias) in every position. Oracle: the 15 occurrence flags recomputed from the mirror AST by a plain recursive 'occurs' walk; exact equality on those bits (STILL_FURTHER_SPECIALIZABLE excluded as the property says; HAS_TY_PROJECTION / HAS_TY_OPAQUE are don't-care when only the placeholder forms TyKind::AssociatedType / TyKind::OpaqueType occur). Non-trivial = >=2 flags expected, one of them contributed from nesting depth >= 2; distinct by hash of the type.".into()
    }
    fn assumptions(&self) -> Vec<String> {
        vec!["'inside the type' includes the types of const arguments (pinned by opaque_ty_flags_correct)".into(), "HAS_CT_PROJECTION is expected clear (chalk has no const projections)".into()]
    }
    fn cases_per_shard(&self, tier: Tier) -> u32 {
        tier.pick(4000, 80000)
    }
    fn tape_len(&self, _tier: Tier) -> usize {
        300
    }
    fn decode(&self, t: &mut Tape, _tier: Tier) -> Case {
        let mut g = Gen { t, stack: vec![], exotic: true };
        Case { ty: g.ty(4) }
    }
    fn describe(&self, c: &Case) -> Value {
        json!({"type": format!("{:?}", ty(&c.ty)), "mirror": format!("{:?}", c.ty)})
    }
    fn shrink(&self, c: &Case) -> Vec<Case> {
        let subs: Vec<BT> = match &c.ty {
            BT::Adt(_, a) | BT::AssocTy(_, a) | BT::OpaqueTy(_, a) | BT::FnDef(_, a) | BT::Proj(_, a) | BT::Opaque(_, a) => a.iter().filter_map(|g| if let BG::T(x) = g { Some(x.clone()) } else { None }).collect(),
            BT::Tuple(a) | BT::Fn(_, a) => a.clone(),
            BT::Array(x, _) | BT::Slice(x) | BT::Raw(_, x) | BT::Ref(_, _, x) => vec![(**x).clone()],
            BT::Dyn(bs, l) => {
                let mut v = vec![];
                for i in 0..bs.len() {
                    if bs.len() > 1 {
                        let mut b2 = bs.clone();
                        b2.remove(i);
                        v.push(BT::Dyn(b2, l.clone()));
                    }
                }
                v
            }
            _ => vec![],
        };
        subs.into_iter().map(|ty| Case { ty }).collect()
    }
    fn run(&self, case: &Case, _tier: Tier) -> CaseOut {
        let mut out = CaseOut::default();
        out.evals = 1;
        let mut f = F::default();
        of_t(&case.ty, &mut f, 0);
        let got = match crate::drive::catch(|| ty(&case.ty).data(I).flags.bits()) {
            Ok(b) => b,
            Err(m) => {
                out.fail(format!("panic:{}", m), format!("computing flags of {:?} panics: {}", case.ty, m));
                return out;
            }
        };
        let mask = !(STILL_FURTHER_SPECIALIZABLE | f.dontcare);
        if got & mask != f.bits & mask {
            let missing = f.bits & !got & mask;
            let extra = got & !f.bits & mask;
            let sig = if missing != 0 { format!("missing:{}", names(missing).join("+")) } else { format!("extra:{}", names(extra).join("+")) };
            out.fail(sig, format!("type {:?}\nstored flags:   {:?}\nexpected flags: {:?}\nmissing {:?} extra {:?}", ty(&case.ty), names(got & mask), names(f.bits & mask), names(missing), names(extra)));
        }
        if (f.bits & mask).count_ones() >= 2 && f.deepest >= 2 {
            out.nontrivial.push(hash_of(&format!("{:?}", case.ty)));
            if out.sample.is_none() {
                out.sample = Some(json!({"type": format!("{:?}", ty(&case.ty)), "flags": names(got)}));
            }
        }
        out
    }
}
