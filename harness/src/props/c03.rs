//! C03 — SLG answer enumeration is sound, duplicate-free, complete, with an accurate look-ahead flag.
use super::common::*;
use crate::drive::*;
use crate::gen::*;
use crate::model::*;
use crate::refsem::*;
use crate::runner::*;
use crate::tape::Tape;
use chalk_integration::interner::ChalkIr;
use chalk_solve::SubstitutionResult;
use serde::{Deserialize, Serialize};
use serde_json::{json, Value};

pub struct C03;

#[derive(Clone, Debug, Serialize, Deserialize)]
pub struct Case {
    pub pg: PG,
    /// stop after k answers (0 = take all, up to the cap)
    pub stop_after: Vec<usize>,
    /// SLG size limit (10 = default; smaller values make truncation-induced ambiguity frequent)
    #[serde(default = "default_max")]
    pub slg_max: usize,
}

fn default_max() -> usize {
    10
}

const CAP: usize = 40;

/// programs whose traits have several answers: ground facts for distinct types, generic impls that
/// generate infinitely many answers, blanket and self-recursive blanket impls, deep where-clauses
pub fn gen_enum_program(t: &mut Tape) -> Program {
    let mut p = Program::default();
    for name in ["A", "B", "C"] {
        p.ctors.push(new_ctor(name, 0));
    }
    p.ctors.push(new_ctor("V", 1));
    if t.chance(40) {
        p.ctors.push(new_ctor("W", 1));
    }
    let nt = 2 + t.choose(2);
    for (i, name) in TRAITS.iter().take(nt).enumerate() {
        let extra = if i > 0 && t.chance(25) { 1 } else { 0 };
        let mut tr = new_trait(name, extra, TraitKind::Inductive);
        tr.non_enumerable = t.chance(8);
        p.traits.push(tr);
    }
    let ground = |t: &mut Tape, p: &Program| -> Ty {
        let c = t.choose(p.ctors.len());
        if p.ctors[c].arity == 0 {
            Ty::Adt(c, vec![])
        } else {
            Ty::Adt(c, vec![Ty::Adt(t.choose(3), vec![])])
        }
    };
    let ni = 3 + t.choose(7);
    for _ in 0..ni {
        let tr = t.choose(nt);
        let extra = p.traits[tr].extra;
        let unary: Vec<usize> = (0..p.ctors.len()).filter(|c| p.ctors[*c].arity == 1).collect();
        let v = unary[t.choose(unary.len())];
        let other = |t: &mut Tape| -> usize { t.choose(nt) };
        let (nparams, self_ty, wcs): (usize, Ty, Vec<TRef>) = match t.choose(10) {
            0..=4 => (0, ground(t, &p), vec![]),
            5 | 6 => {
                let w = other(t);
                (1, Ty::Adt(v, vec![Ty::Param(0)]), if p.traits[w].extra == 0 { vec![TRef { tr: w, args: vec![Ty::Param(0)] }] } else { vec![] })
            }
            7 => {
                let w = other(t);
                (1, Ty::Param(0), if p.traits[w].extra == 0 && w != tr { vec![TRef { tr: w, args: vec![Ty::Param(0)] }] } else { vec![TRef { tr: 0, args: vec![Ty::Adt(v, vec![Ty::Param(0)])] }] })
            }
            8 => {
                let w = other(t);
                let mut ws = vec![];
                if p.traits[w].extra == 0 {
                    ws.push(TRef { tr: w, args: vec![Ty::Param(0)] });
                }
                if extra == 0 {
                    ws.push(TRef { tr, args: vec![Ty::Param(0)] });
                }
                (1, Ty::Param(0), ws)
            }
            _ => {
                let w = other(t);
                let deep = Ty::Adt(v, vec![Ty::Adt(v, vec![Ty::Param(0)])]);
                (1, Ty::Param(0), if p.traits[w].extra == 0 { vec![TRef { tr: w, args: vec![deep] }] } else { vec![] })
            }
        };
        let mut args = vec![self_ty];
        for _ in 0..extra {
            args.push(if nparams > 0 && t.chance(40) { Ty::Param(0) } else { ground(t, &p) });
        }
        // every parameter must occur in the header
        let mut used = vec![];
        args.iter().for_each(|a| a.collect_params(&mut used));
        if nparams > 0 && used.is_empty() {
            continue;
        }
        p.impls.push(ImplDef { nparams, head: TRef { tr, args }, wcs, positive: true, values: vec![], upstream: false });
    }
    p
}

pub fn gen_enum_goal(t: &mut Tape, p: &Program) -> Goal {
    let nv = 1 + t.choose(2);
    let vars: Vec<usize> = (0..nv).collect();
    let x = |t: &mut Tape| Ty::QVar(t.choose(nv));
    let atom = |t: &mut Tape| -> TRef {
        let tr = t.choose(p.traits.len());
        let self_ty = match t.choose(5) {
            0 => Ty::Adt(3, vec![x(t)]),
            _ => x(t),
        };
        let mut args = vec![self_ty];
        for _ in 0..p.traits[tr].extra {
            args.push(if t.chance(60) { x(t) } else { Ty::Adt(t.choose(3), vec![]) });
        }
        TRef { tr, args }
    };
    let mut body = vec![Lit::Holds(atom(t))];
    match t.choose(6) {
        0 => body.push(Lit::Holds(atom(t))),
        1 => body.push(Lit::Not(Box::new(Lit::Holds(atom(t))))),
        _ => {}
    }
    Goal { prefix: vec![Prefix::Exists(vars)], body }
}

impl Property for C03 {
    type Case = Case;
    fn id(&self) -> &'static str {
        "C03"
    }
    fn rule(&self) -> String {
        "case = generated F-horn program (fact-rich, also recursive impls giving infinitely many answers) with 3 goals having 1-2 existential variables and a callback policy (take all up to 40 / stop after k); the stream [(answer_i, has_next_i)] of Solver::solve_multiple (SLG at max_size 10, 5, 4 or 3 — small limits make truncation-induced ambiguous answers frequent) is recorded. Oracle: no yielded Definite answer covers a non-solution of the reference model (sound); no two yielded answers are equal canonical values (no duplicate); if the enumeration ended by itself with only Definite answers, every reference solution in the bounded universe is an instance of a yielded answer (complete); has_next=false is followed by no further callback and `true` return, has_next=true is followed by another callback when we continue (flag). Each goal is then enumerated a second time on the same solver with the same policy: the stream and the return value must be identical (answers read back from the tables). Non-trivial = stream with >=2 answers or a stop-after-k policy with k < #answers; distinct by hash of (program, goal, policy).".into()
    }
    fn assumptions(&self) -> Vec<String> {
        vec!["reference semantics as in C01; the harness stops at the first Floundered item (a floundered table repeats it by construction)".into(), "completeness is only judged inside the bounded Herbrand universe (depth 2)".into()]
    }
    fn cases_per_shard(&self, tier: Tier) -> u32 {
        tier.pick(600, 6000)
    }
    fn decode(&self, t: &mut Tape, _tier: Tier) -> Case {
        let mut cfg = GenCfg::horn();
        cfg.fact_bias = 55;
        cfg.supers = false;
        if t.chance(25) {
            cfg = GenCfg { fact_bias: 45, ..GenCfg::horn_auto() };
        }
        let (program, goals) = if t.chance(65) {
            let program = gen_enum_program(t);
            let goals: Vec<Goal> = (0..3).map(|_| gen_enum_goal(t, &program)).collect();
            (program, goals)
        } else {
            let program = gen_program(t, &cfg);
            let gcfg = GoalCfg { force_exists: true, not: true, ..GoalCfg::full() };
            let goals: Vec<Goal> = (0..3).map(|_| gen_goal(t, &program, &gcfg)).collect();
            (program, goals)
        };
        let stop_after = (0..3).map(|_| if t.chance(30) { 1 + t.choose(3) } else { 0 }).collect();
        let slg_max = [10, 10, 5, 4, 3][t.choose(5)];
        Case { pg: PG { program, goals }, stop_after, slg_max }
    }
    fn describe(&self, c: &Case) -> Value {
        let mut v = c.pg.describe();
        v["stop_after"] = json!(c.stop_after);
        v["slg_max_size"] = json!(c.slg_max);
        v
    }
    fn shrink(&self, c: &Case) -> Vec<Case> {
        let mut out = vec![];
        if c.pg.goals.len() > 1 {
            for i in 0..c.pg.goals.len() {
                let mut q = c.clone();
                q.pg.goals.remove(i);
                q.stop_after.remove(i);
                out.push(q);
            }
        }
        for p in shrink_program(&c.pg.program) {
            if c.pg.goals.iter().all(|g| goal_traits_ok(g, p.traits.len())) {
                out.push(Case { pg: PG { program: p, goals: c.pg.goals.clone() }, stop_after: c.stop_after.clone(), slg_max: c.slg_max });
            }
        }
        for (i, g) in c.pg.goals.iter().enumerate() {
            for g2 in shrink_goal(g) {
                let mut q = c.clone();
                q.pg.goals[i] = g2;
                out.push(q);
            }
        }
        out
    }
    fn run(&self, case: &Case, _tier: Tier) -> CaseOut {
        let mut out = CaseOut::default();
        let low = match lower_pg(&case.pg, &mut out) {
            Some(l) => l,
            None => return out,
        };
        let names = Names { program: &low.program, model: &case.pg.program };
        with_program(&low, || {
            for (gi, g) in case.pg.goals.iter().enumerate() {
                let lg = match &low.goals[gi] {
                    Some(x) => x,
                    None => continue,
                };
                let stop = case.stop_after.get(gi).copied().unwrap_or(0);
                let limit = if stop == 0 { CAP } else { stop };
                // (kind, converted subst, has_next, rendered)
                let mut items: Vec<(&'static str, Option<(Vec<Ty>, Vec<usize>)>, bool, String)> = vec![];
                out.evals += 1;
                let mut stopped_by_us = false;
                let mut solver = chalk_integration::SolverChoice::SLG { max_size: case.slg_max, expected_answers: None }.into_solver();
                let (run, work) = guarded(DEFAULT_BUDGET * 4, || {
                    let mut n = 0;
                    solver.solve_multiple(&*low.program, &lg.peeled.goal, &mut |res, has_next| {
                        n += 1;
                        let rendered = format!("{}", res.as_ref().map(|v| v.display(ChalkIr)));
                        let (kind, conv) = match &res {
                            SubstitutionResult::Definite(c) => {
                                let cs = chalk_ir::Canonical { value: c.value.subst.clone(), binders: c.binders.clone() };
                                ("Definite", names.subst(&lg.peeled, &cs).ok())
                            }
                            SubstitutionResult::Ambiguous(_) => ("Ambiguous", None),
                            SubstitutionResult::Floundered => ("Floundered", None),
                        };
                        items.push((kind, conv, has_next, rendered));
                        // a floundered table repeats `Floundered` forever: stop there unless the flag says it was the last item
                        let go_on = !((kind == "Floundered" && has_next) || n >= limit);
                        stopped_by_us = !go_on;
                        go_on
                    })
                });
                out.max("work:slg", work);
                let finished = match run {
                    Run::Done(f) => f,
                    Run::Budget => {
                        out.bump("budget_exceeded(not judged here, see C09)");
                        continue;
                    }
                    Run::Overflow => continue,
                    Run::Panic(m) => {
                        out.fail(format!("slg:panic:{}", m), format!("solve_multiple panicked: {}\n{}goal: {}", m, low.text, lg.text));
                        continue;
                    }
                };
                // the same goal enumerated again on the same solver (answers now come from the tables) must give the same
                // stream: no answer may appear, disappear or double because it is read back instead of computed. (Not after a
                // Floundered item: a floundered table answers `Floundered` from then on, by design.)
                // Judged for enumerations that ran to their end: after an early stop the look-ahead may already have floundered
                // the table.
                if finished && !stopped_by_us && !items.iter().any(|i| i.0 == "Floundered") {
                    let mut items2: Vec<(String, bool)> = vec![];
                    let mut n2 = 0;
                    let (run2, _) = guarded(DEFAULT_BUDGET * 4, || {
                        solver.solve_multiple(&*low.program, &lg.peeled.goal, &mut |res, has_next| {
                            n2 += 1;
                            let floundered = matches!(res, SubstitutionResult::Floundered);
                            items2.push((format!("{}", res.as_ref().map(|v| v.display(ChalkIr))), has_next));
                            !((floundered && has_next) || n2 >= limit)
                        })
                    });
                    let first: Vec<(String, bool)> = items.iter().map(|i| (i.3.clone(), i.2)).collect();
                    match run2 {
                        Run::Done(f2) => {
                            if items2 != first || f2 != finished {
                                let co = if crate::refsem::solution_sets(&case.pg.program, g, 2, 30).st.co_cycle || program_has_co_cycle(&case.pg.program) { ":coinductive-cycle" } else { "" };
                                out.fail(format!("re-enumeration-differs{}", co), format!("the second enumeration of the goal on the same solver differs from the first\n{}goal: {}\nfirst:  {:?} returned {}\nsecond: {:?} returned {}", low.text, lg.text, first, finished, items2, f2));
                            } else {
                                out.bump("re_enumeration_identical");
                            }
                        }
                        Run::Panic(m) => out.fail(format!("slg:panic-on-re-enumeration:{}", m), format!("the second solve_multiple on the same solver panicked: {}\n{}goal: {}", m, low.text, lg.text)),
                        _ => out.bump("re_enumeration_outside_limits(not judged)"),
                    }
                }
                out.bump(&format!("stream_len:{}", match items.len() { 0 => "0", 1 => "1", 2..=4 => "2-4", 5..=39 => "5-39", _ => "cap" }));
                let ctx = |msg: &str| format!("{}\n{}goal: {}\nstream: {:?}\nreturned: {}", msg, low.text, lg.text, items.iter().map(|i| (i.3.clone(), i.2)).collect::<Vec<_>>(), finished);
                // duplicates (Floundered excluded)
                let mut seen: Vec<&String> = vec![];
                for it in &items {
                    if it.0 != "Floundered" {
                        if seen.contains(&&it.3) {
                            out.fail("duplicate-answer", ctx(&format!("answer `{}` yielded twice", it.3)));
                            break;
                        }
                        seen.push(&it.3);
                    }
                }
                // look-ahead flag
                for (i, it) in items.iter().enumerate() {
                    let is_last = i + 1 == items.len();
                    if !is_last && !it.2 {
                        out.fail("flag-false-but-more-answers", ctx("has_next=false but a further answer followed"));
                        break;
                    }
                    if is_last && finished && it.2 {
                        out.fail("flag-true-but-enumeration-ended", ctx("has_next=true on the last answer but the enumeration ended"));
                    }
                    if is_last && !it.2 && !finished && !stopped_by_us {
                        out.fail("flag-false-but-not-finished", ctx("has_next=false but solve_multiple reported it was stopped early"));
                    }
                }
                if finished == stopped_by_us {
                    out.fail("return-value-wrong", ctx(&format!("solve_multiple returned {} but the callback {} the enumeration", finished, if stopped_by_us { "stopped" } else { "never stopped" })));
                }
                if items.is_empty() && !finished {
                    out.fail("no-answer-but-not-finished", ctx("no callback but solve_multiple returned false"));
                }
                // soundness / completeness against the reference model
                let sets = solution_sets(&case.pg.program, g, 2, 400);
                let project = |t: &Vec<Ty>| -> Vec<Ty> { lg.peeled.binder_to_exvar.iter().map(|k| t[*k].clone()).collect() };
                let nb = lg.peeled.binder_to_exvar.len();
                let mut all_definite = true;
                'items: for it in &items {
                    match (&it.0, &it.1) {
                        (&"Definite", Some((sub, cu))) if sub.len() == nb => {
                            for t in &sets.n {
                                if instance_of(&project(t), sub, cu) {
                                    let co = if sets.st.co_cycle || program_has_co_cycle(&case.pg.program) { ":coinductive-cycle" } else { "" };
                                    out.fail(format!("unsound-answer{}", co), ctx(&format!("yielded answer `{}` covers the non-solution ({})", it.3, show_tuple(&case.pg.program, t))));
                                    break 'items;
                                }
                            }
                        }
                        _ => all_definite = false,
                    }
                }
                if finished && all_definite && stop == 0 && items.len() < CAP {
                    out.bump("completeness_judged");
                    for t in &sets.s {
                        let covered = items.iter().any(|it| it.1.as_ref().map(|(sub, cu)| instance_of(&project(t), sub, cu)).unwrap_or(false));
                        if !covered {
                            let co = if sets.st.co_cycle { ":coinductive-cycle" } else { "" };
                            out.fail(format!("incomplete{}", co), ctx(&format!("solution ({}) is not an instance of any yielded answer", show_tuple(&case.pg.program, t))));
                            break;
                        }
                    }
                }
                if items.len() >= 2 || (stop > 0 && items.len() == stop && items.last().map(|i| i.2).unwrap_or(false)) {
                    out.nontrivial.push(hash_of(&(&low.text, &lg.text, stop)));
                    if out.sample.is_none() {
                        out.sample = Some(json!({"program": low.text, "goal": lg.text, "stop_after": stop, "stream": items.iter().map(|i| json!([i.3, i.2])).collect::<Vec<_>>(), "returned": finished, "oracle": {"true": sets.s.len(), "false": sets.n.len()}}));
                    }
                }
            }
        });
        out
    }
}
