//! C11 — interrupted solving is a safe approximation; later solves are unaffected (fault enumeration
//! over every interruption schedule of a generated case).
use super::common::*;
use crate::drive::*;
use crate::gen::*;
use crate::refsem::pattern_instance_of;
use crate::runner::*;
use crate::tape::Tape;
use serde_json::{json, Value};
use std::cell::Cell;

pub struct C11;

const MAX_K: usize = 48;

impl Property for C11 {
    type Case = PG;
    fn id(&self) -> &'static str {
        "C11"
    }
    fn level(&self) -> &'static str {
        "fault_enumeration"
    }
    fn rule(&self) -> String {
        "case = generated F-horn(+auto/coinductive) program with 3 goals; for the first two goals and each solver (SLG, recursive with cache) EVERY interruption schedule is enumerated: the continue-callback returns false exactly on its k-th invocation for k = 0..K-1 (K = invocations of an uninterrupted solve_limited, capped at 48), plus 'always false'; after each interrupted solve the same solver instance answers the same goal and the other goals without limit. Oracle: the interrupted answer equals the full answer or is Ambiguous and does not contradict it (definite guidance generalises the full substitution); every follow-up answer renders identically to a fresh solver's. Non-trivial = schedule with 0 < k < K or whose interruption changed the answer; distinct by hash of (program, goal, solver, k).".into()
    }
    fn assumptions(&self) -> Vec<String> {
        vec!["K is measured per (goal, solver) on a fresh solver; schedules beyond the cap of 48 callbacks are sampled only by 'always false'".into()]
    }
    fn cases_per_shard(&self, tier: Tier) -> u32 {
        tier.pick(100, 2000)
    }
    fn decode(&self, t: &mut Tape, _tier: Tier) -> PG {
        let cfg = if t.chance(40) { GenCfg::horn_auto() } else { GenCfg::horn() };
        super::c01::decode_pg(t, &cfg, &GoalCfg::full(), 3)
    }
    fn describe(&self, case: &PG) -> Value {
        case.describe()
    }
    fn shrink(&self, case: &PG) -> Vec<PG> {
        case.shrink()
    }
    fn run(&self, case: &PG, _tier: Tier) -> CaseOut {
        let mut out = CaseOut::default();
        let low = match lower_pg(case, &mut out) {
            Some(l) => l,
            None => return out,
        };
        let names = Names { program: &low.program, model: &case.program };
        with_program(&low, || {
            for sv in Sv::BOTH {
                // fresh, uninterrupted answers
                let fresh: Vec<Option<(String, Option<chalk_solve::Solution<_>>)>> = low
                    .goals
                    .iter()
                    .map(|lg| {
                        let lg = lg.as_ref()?;
                        match solve_fresh(&*low.program, sv.choice(), &lg.peeled.goal, DEFAULT_BUDGET).0 {
                            Run::Done(s) => Some((render(&s), s)),
                            _ => None,
                        }
                    })
                    .collect();
                for gi in 0..low.goals.len().min(2) {
                    let lg = match &low.goals[gi] {
                        Some(x) => x,
                        None => continue,
                    };
                    let (full_r, full_s) = match &fresh[gi] {
                        Some(x) => x,
                        None => continue,
                    };
                    // K
                    let n = Cell::new(0usize);
                    let (r, _) = guarded(DEFAULT_BUDGET, || {
                        sv.choice().into_solver().solve_limited(&*low.program, &lg.peeled.goal, &|| {
                            n.set(n.get() + 1);
                            true
                        })
                    });
                    if r.done().is_none() {
                        continue;
                    }
                    let kk = n.get();
                    out.max(&format!("callbacks:{}", sv.name()), kk as u64);
                    let mut schedules: Vec<Option<usize>> = (0..kk.min(MAX_K)).map(Some).collect();
                    schedules.push(None); // always false
                    for sched in schedules {
                        out.evals += 1;
                        let mut solver = sv.choice().into_solver();
                        let c = Cell::new(0usize);
                        let (lim, _) = guarded(DEFAULT_BUDGET, || {
                            solver.solve_limited(&*low.program, &lg.peeled.goal, &|| {
                                let v = c.get();
                                c.set(v + 1);
                                match sched {
                                    Some(k) => v != k,
                                    None => false,
                                }
                            })
                        });
                        let sname = match sched {
                            Some(k) => format!("false at callback {} of {}", k, kk),
                            None => "always false".into(),
                        };
                        let ctx = |msg: String| format!("[{}] {} — schedule: {}\n{}goal: {}\nfull answer: {}", sv.name(), msg, sname, low.text, lg.text, full_r);
                        let lim_s = match lim {
                            Run::Done(s) => s,
                            Run::Panic(m) => {
                                out.fail(format!("{}:panic-in-limited:{}", sv.name(), m), ctx(format!("interrupted solve panicked: {}", m)));
                                continue;
                            }
                            _ => continue,
                        };
                        let lim_r = render(&lim_s);
                        // approximation
                        let mut ok = lim_r == *full_r;
                        if !ok && lim_r.starts_with("Ambiguous") {
                            ok = true;
                            // definite guidance of the interrupted answer must not claim more than the full answer:
                            // the full substitution (Unique or definite) has to be an instance of it, and a full
                            // answer without definite guidance cannot be "approximated" by a definite one
                            match (names.convert(&lg.peeled, &lim_s), names.convert(&lg.peeled, full_s)) {
                                (Ok(Ans::Definite(g, _)), Ok(Ans::Unique(u, _))) | (Ok(Ans::Definite(g, _)), Ok(Ans::Definite(u, _))) => {
                                    if !pattern_instance_of(&u, &g) {
                                        ok = false;
                                    }
                                }
                                (Ok(Ans::Definite(g, _)), Ok(Ans::Ambig)) => {
                                    // allowed only if the guidance says nothing (all distinct variables)
                                    let trivial = g.iter().enumerate().all(|(i, t)| matches!(t, crate::model::Ty::CVar(_)) && g.iter().skip(i + 1).all(|u| u != t));
                                    if !trivial {
                                        ok = false;
                                    }
                                }
                                _ => {}
                            }
                        }
                        if !ok {
                            out.fail(format!("{}:not-an-approximation:{}", sv.name(), super::c10::diff_class(full_r, &lim_r)), ctx(format!("interrupted answer `{}` contradicts the full answer", lim_r)));
                        }
                        // recovery: same goal, then the others
                        let mut recovered = true;
                        for gj in std::iter::once(gi).chain((0..low.goals.len()).filter(|j| *j != gi)) {
                            let (lgj, exp) = match (&low.goals[gj], &fresh[gj]) {
                                (Some(a), Some(b)) => (a, &b.0),
                                _ => continue,
                            };
                            let (r, _) = solve_with(&mut *solver, &*low.program, &lgj.peeled.goal, DEFAULT_BUDGET);
                            match r {
                                Run::Done(s) => {
                                    let got = render(&s);
                                    if &got != exp {
                                        let mut dc = super::c10::diff_class(exp, &got);
                                        // unbounded answer sets: truncation point depends on what is tabled (see C10)
                                        let within = non_growing(&case.program) && (goal_is_closed(&case.goals[gj]) || finite_answers(&case.program));
                                        if !within && !dc.contains("repeated-var") {
                                            if let Some((_, fs)) = &fresh[gj] {
                                                if super::c04::incompatible(&names, &lgj.peeled, fs, &s, &mut out).is_none() {
                                                    dc = "precision-only:unbounded-answers".into();
                                                }
                                            }
                                        }
                                        let co = if program_has_co_cycle(&case.program) && !dc.contains("unbounded") && !dc.contains("repeated-var") { ":coinductive-cycle" } else { "" };
                                        out.fail(
                                            format!("{}:later-solve-differs:{}{}", sv.name(), dc, co),
                                            ctx(format!("after the interrupted solve, the same solver answers `{}` with `{}`; a fresh solver says `{}`", lgj.text, got, exp)),
                                        );
                                        recovered = false;
                                        break;
                                    }
                                }
                                Run::Panic(m) => {
                                    out.fail(format!("{}:later-solve-panics:{}", sv.name(), m), ctx(format!("after the interrupted solve, solving `{}` panics: {}", lgj.text, m)));
                                    recovered = false;
                                    break;
                                }
                                _ => break,
                            }
                        }
                        let inside = matches!(sched, Some(k) if k > 0 && k + 1 < kk);
                        if recovered && (inside || lim_r != *full_r) {
                            out.nontrivial.push(hash_of(&(&low.text, &lg.text, sv.name(), sched)));
                            if lim_r != *full_r {
                                out.bump(&format!("{}:interruption_changed_answer", sv.name()));
                            }
                            if out.sample.is_none() && lim_r != *full_r {
                                out.sample = Some(json!({"program": low.text, "goal": lg.text, "solver": sv.name(), "schedule": sname, "interrupted_answer": lim_r, "full_answer": full_r}));
                            }
                        }
                    }
                }
            }
        });
        out
    }
}
