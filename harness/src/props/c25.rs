//! C25 — binder operations obey the substitution laws; no-op folders are the identity.
use crate::bir::*;
use crate::runner::*;
use crate::tape::Tape;
use chalk_integration::interner::ChalkIr;
use chalk_ir::fold::shift::Shift;
use chalk_ir::fold::{FallibleTypeFolder, Subst, TypeFoldable, TypeFolder};
use chalk_ir::interner::HasInterner;
use chalk_ir::*;
use serde::{Deserialize, Serialize};
use serde_json::{json, Value};

pub struct C25;

#[derive(Clone, Debug, Serialize, Deserialize)]
pub enum Term {
    Ty(BT),
    Goal(BGoal),
    Clause(BClause),
}

#[derive(Clone, Debug, Serialize, Deserialize)]
pub struct Case {
    pub term: Term,
    /// one parameter per variable of the outer binder (kinds `OUTER`), possibly with free variables
    pub params: Vec<BG>,
}

struct NoopInfallible;
impl FallibleTypeFolder<ChalkIr> for NoopInfallible {
    type Error = std::convert::Infallible;
    fn as_dyn(&mut self) -> &mut dyn FallibleTypeFolder<ChalkIr, Error = Self::Error> {
        self
    }
    fn interner(&self) -> ChalkIr {
        ChalkIr
    }
}
impl TypeFolder<ChalkIr> for NoopInfallible {
    fn as_dyn(&mut self) -> &mut dyn TypeFolder<ChalkIr> {
        self
    }
    fn interner(&self) -> ChalkIr {
        ChalkIr
    }
}
struct NoopFallible;
impl FallibleTypeFolder<ChalkIr> for NoopFallible {
    type Error = ();
    fn as_dyn(&mut self) -> &mut dyn FallibleTypeFolder<ChalkIr, Error = ()> {
        self
    }
    fn interner(&self) -> ChalkIr {
        ChalkIr
    }
}

fn laws<T>(name: &str, t: T, reference: &dyn Fn(&mut dyn VarMap) -> Result<T, ()>, params: &[BG], out: &mut Vec<(String, String)>)
where
    T: TypeFoldable<ChalkIr> + HasInterner<Interner = ChalkIr> + Clone + PartialEq + std::fmt::Debug,
{
    let fail = |out: &mut Vec<(String, String)>, sig: &str, msg: String| out.push((format!("{}:{}", name, sig), msg));
    // (a) against the reference calculus
    for k in 1..=2u32 {
        let got = t.clone().shifted_in_from(I, DebruijnIndex::new(k));
        match reference(&mut ShiftIn(k as usize)) {
            Ok(exp) if exp == got => {}
            other => fail(out, "shift-in-differs-from-reference", format!("shifted_in_from({}) of {:?}\n chalk:     {:?}\n reference: {:?}", k, t, got, other)),
        }
        let got = t.clone().shifted_out_to(I, DebruijnIndex::new(k));
        let exp = reference(&mut ShiftOut(k as usize));
        match (&got, &exp) {
            (Ok(a), Ok(b)) if a == b => {}
            (Err(_), Err(_)) => {}
            _ => fail(out, "shift-out-differs-from-reference", format!("shifted_out_to({}) of {:?}\n chalk:     {:?}\n reference: {:?}", k, t, got, exp)),
        }
    }
    let cparams: Vec<GenericArg<ChalkIr>> = params.iter().map(ga).collect();
    let got = Subst::apply(I, &cparams, t.clone());
    match reference(&mut SubstMap(params)) {
        Ok(exp) if exp == got => {}
        other => fail(out, "subst-differs-from-reference", format!("Subst::apply({:?}) on {:?}\n chalk:     {:?}\n reference: {:?}", cparams, t, got, other)),
    }
    // (b) laws, independent of the reference calculus
    match t.clone().shifted_in(I).shifted_out(I) {
        Ok(back) if back == t => {}
        other => fail(out, "shift-in-out-roundtrip", format!("{:?}.shifted_in().shifted_out() = {:?}", t, other)),
    }
    for k in 1..=3u32 {
        match t.clone().shifted_in_from(I, DebruijnIndex::new(k)).shifted_out_to(I, DebruijnIndex::new(k)) {
            Ok(back) if back == t => {}
            other => fail(out, "shift-in-out-roundtrip", format!("{:?}.shifted_in_from({}).shifted_out_to({}) = {:?}", t, k, k, other)),
        }
    }
    // substituting into a term that was shifted in returns the term
    let s = Subst::apply(I, &cparams, t.clone().shifted_in(I));
    if s != t {
        fail(out, "subst-of-shifted-term", format!("Subst::apply(P, {:?}.shifted_in()) = {:?}", t, s));
    }
    // Binders::substitute agrees with Subst::apply
    let b = Binders::new(kinds(&OUTER), t.clone());
    let via_binders = b.clone().substitute(I, &cparams[..]);
    if via_binders != got {
        fail(out, "binders-substitute-differs-from-subst", format!("Binders::substitute {:?} vs Subst::apply {:?}", via_binders, got));
    }
    // identity substitution on a term whose free variables all belong to the binder
    let mut mf = MinFree(None, false);
    let _ = reference(&mut mf);
    struct MaxFree(usize);
    impl VarMap for MaxFree {
        fn ty(&mut self, rel: usize, i: usize, cut: usize) -> Result<BT, ()> {
            self.0 = self.0.max(rel);
            Ok(BT::Bound(rel + cut, i))
        }
        fn lt(&mut self, rel: usize, i: usize, cut: usize) -> Result<BL, ()> {
            self.0 = self.0.max(rel);
            Ok(BL::Bound(rel + cut, i))
        }
        fn ct(&mut self, rel: usize, i: usize, cut: usize, cty: u8) -> Result<BC, ()> {
            self.0 = self.0.max(rel);
            Ok(BC { cty, v: BCv::Bound(rel + cut, i) })
        }
    }
    let mut mx = MaxFree(0);
    let _ = reference(&mut mx);
    if mx.0 == 0 {
        let ident: Vec<GenericArg<ChalkIr>> = OUTER
            .iter()
            .enumerate()
            .map(|(i, k)| match k {
                K::Ty => ga(&BG::T(BT::Bound(0, i))),
                K::Lt => ga(&BG::L(BL::Bound(0, i))),
                K::Ct => ga(&BG::C(BC { cty: 0, v: BCv::Bound(0, i) })),
            })
            .collect();
        // const variables keep their own type annotation: compare modulo nothing only when no const var carries an exotic type
        let r = b.clone().substitute(I, &ident[..]);
        if r != t && !format!("{:?}", t).contains("cty: ") {
            fail(out, "identity-substitution", format!("Binders({:?}).substitute(identity) = {:?}", t, r));
        }
    }
    // substitution commutes with shifting
    let lhs = b.clone().substitute(I, &cparams[..]).shifted_in(I);
    let shifted_params: Vec<GenericArg<ChalkIr>> = cparams.iter().map(|p| p.clone().shifted_in(I)).collect();
    let rhs = b.shifted_in(I).substitute(I, &shifted_params[..]);
    if lhs != rhs {
        fail(out, "subst-shift-commute", format!("shift(subst(P, B)) = {:?}\nsubst(shift(P), shift(B)) = {:?}\nB = {:?}", lhs, rhs, t));
    }
    // no-op folders
    let f1 = t.clone().fold_with(&mut NoopInfallible, DebruijnIndex::INNERMOST);
    if f1 != t {
        fail(out, "noop-folder-changes-term", format!("{:?} folds to {:?}", t, f1));
    }
    match t.clone().try_fold_with(&mut NoopFallible, DebruijnIndex::INNERMOST) {
        Ok(f2) if f2 == t => {}
        other => fail(out, "noop-fallible-folder-changes-term", format!("{:?} try-folds to {:?}", t, other)),
    }
}

impl Property for C25 {
    type Case = Case;
    fn id(&self) -> &'static str {
        "C25"
    }
    fn rule(&self) -> String {
        "case = a generated term — a type (every TyKind incl. nested fn-pointer and dyn binders, projections, opaque types), a goal (quantifiers, implications with program clauses, conjunction, negation, equality, domain goals) or a program clause — of depth <= 5 with type/lifetime/const bound variables at several de Bruijn depths, including variables that are free at the root, plus one substitution parameter per variable of the outer binder (parameters may contain free variables themselves). Oracle: (a) an independent de Bruijn calculus on the mirror AST (shift in, shift out with failure, substitute) compared structurally with Shift::shifted_in_from / shifted_out_to / Subst::apply; (b) laws on chalk's results alone: shift in then out is the identity, substituting into a shifted term returns it, Binders::substitute = Subst::apply, identity substitution, substitution commutes with shifting, a no-op TypeFolder and a no-op FallibleTypeFolder return an equal term. Non-trivial = term with a free bound variable occurring under >=1 inner binder; distinct by hash of the case.".into()
    }
    fn assumptions(&self) -> Vec<String> {
        vec!["consts are typed usize (closed)".into()]
    }
    fn cases_per_shard(&self, tier: Tier) -> u32 {
        tier.pick(2000, 50000)
    }
    fn tape_len(&self, _tier: Tier) -> usize {
        400
    }
    fn decode(&self, t: &mut Tape, _tier: Tier) -> Case {
        let which = t.choose(5);
        let mut g = Gen { t, stack: vec![], exotic: false };
        let term = match which {
            0 | 1 | 2 => Term::Ty(g.ty(4)),
            3 => Term::Goal(g.goal(3)),
            _ => Term::Clause(g.clause(2)),
        };
        let params = OUTER
            .iter()
            .map(|k| match k {
                K::Ty => BG::T(g.ty(2)),
                K::Lt => BG::L(g.l()),
                K::Ct => BG::C(g.c()),
            })
            .collect();
        Case { term, params }
    }
    fn describe(&self, c: &Case) -> Value {
        let term = match &c.term {
            Term::Ty(t) => format!("{:?}", ty(t)),
            Term::Goal(g) => format!("{:?}", goal(g)),
            Term::Clause(cl) => format!("{:?}", clause(cl)),
        };
        json!({"term": term, "mirror": format!("{:?}", c.term), "params": c.params.iter().map(|p| format!("{:?}", ga(p))).collect::<Vec<_>>()})
    }
    fn shrink(&self, c: &Case) -> Vec<Case> {
        let mut out = vec![];
        if let Term::Ty(t) = &c.term {
            let subs: Vec<BT> = match t {
                BT::Adt(_, a) | BT::AssocTy(_, a) | BT::OpaqueTy(_, a) | BT::FnDef(_, a) | BT::Proj(_, a) | BT::Opaque(_, a) => a.iter().filter_map(|g| if let BG::T(x) = g { Some(x.clone()) } else { None }).collect(),
                BT::Tuple(a) => a.clone(),
                BT::Array(x, _) | BT::Slice(x) | BT::Raw(_, x) | BT::Ref(_, _, x) => vec![(**x).clone()],
                _ => vec![],
            };
            for s in subs {
                out.push(Case { term: Term::Ty(s), params: c.params.clone() });
            }
        }
        out
    }
    fn run(&self, case: &Case, _tier: Tier) -> CaseOut {
        let mut out = CaseOut::default();
        out.evals = 1;
        let r = crate::drive::catch(|| {
            let mut fails = vec![];
            match &case.term {
                Term::Ty(t) => laws("ty", ty(t), &|m| map_t(t, 0, m).map(|x| ty(&x)), &case.params, &mut fails),
                Term::Goal(g) => laws("goal", goal(g), &|m| map_goal(g, 0, m).map(|x| goal(&x)), &case.params, &mut fails),
                Term::Clause(c) => laws("clause", clause(c), &|m| map_clause(c, 0, m).map(|x| clause(&x)), &case.params, &mut fails),
            }
            fails
        });
        match r {
            Ok(fails) => {
                for (sig, msg) in fails {
                    out.fail(sig, msg);
                }
            }
            Err(m) => out.fail(format!("panic:{}", m), format!("panic {} on {:?}", m, case)),
        }
        let mut mf = MinFree(None, false);
        let _ = match &case.term {
            Term::Ty(t) => map_t(t, 0, &mut mf).map(|_| ()),
            Term::Goal(g) => map_goal(g, 0, &mut mf).map(|_| ()),
            Term::Clause(c) => map_clause(c, 0, &mut mf).map(|_| ()),
        };
        if mf.1 {
            out.nontrivial.push(hash_of(&format!("{:?}", case)));
            out.bump(match &case.term {
                Term::Ty(_) => "nontrivial:type",
                Term::Goal(_) => "nontrivial:goal",
                Term::Clause(_) => "nontrivial:clause",
            });
            if out.sample.is_none() {
                out.sample = Some(self.describe(case));
            }
        }
        out
    }
}
