//! C29 — subtyping follows declared variance (independent variance walk; entailment both ways).
use crate::drive::*;
use crate::runner::*;
use crate::tape::Tape;
use chalk_integration::interner::ChalkIr;
use chalk_integration::lowering::lower_goal;
use chalk_ir::*;
use chalk_solve::ext::GoalExt;
use chalk_solve::Solution;
use serde::{Deserialize, Serialize};
use serde_json::{json, Value};
use std::collections::{BTreeMap, BTreeSet};
use std::sync::{Arc, OnceLock};

pub struct C29;

#[derive(Clone, Debug, PartialEq, Eq, Hash, PartialOrd, Ord, Serialize, Deserialize)]
pub enum Lt {
    Static,
    /// forall-bound 'p0..'p2
    Ph(usize),
    /// exists-bound 'u0, 'u1
    Unk(usize),
    CVar(usize),
    PhRaw(usize, usize),
}

#[derive(Clone, Debug, PartialEq, Serialize, Deserialize)]
pub enum Sk {
    Leaf,
    Ref(bool, Box<Sk>),
    Fn(Vec<Sk>, Box<Sk>),
    Tuple(Vec<Sk>),
    Slice(Box<Sk>),
    /// 0 Co 1 Contra 2 Inv (declared variance of the type parameter)
    Adt(usize, Box<Sk>),
    /// 0 CoL 1 ContraL 2 InvL (one lifetime parameter)
    AdtL(usize),
    /// two-parameter ADT `Mix<'a, T>`: lifetime contravariant, type covariant
    Mix(Box<Sk>),
}

#[derive(Clone, Debug, Serialize, Deserialize)]
pub struct Case {
    pub sk: Sk,
    /// structure of the right-hand side (equal to `sk` unless mutated)
    pub sk_b: Sk,
    pub la: Vec<Lt>,
    pub lb: Vec<Lt>,
    pub exists_outer: bool,
}

#[derive(Clone, Copy, PartialEq, Eq, Debug)]
enum V {
    Co,
    Contra,
    Inv,
}
impl V {
    fn xform(self, o: V) -> V {
        match (self, o) {
            (V::Inv, _) | (_, V::Inv) => V::Inv,
            (V::Co, x) => x,
            (V::Contra, V::Co) => V::Contra,
            (V::Contra, V::Contra) => V::Co,
        }
    }
}

fn gen_sk(t: &mut Tape, d: usize) -> Sk {
    if d == 0 {
        return if t.chance(35) { Sk::AdtL(t.choose(3)) } else { Sk::Leaf };
    }
    match t.choose(10) {
        0 | 1 => Sk::Ref(t.chance(33), Box::new(gen_sk(t, d - 1))),
        2 => {
            let n = t.choose(3);
            Sk::Fn((0..n).map(|_| gen_sk(t, d - 1)).collect(), Box::new(gen_sk(t, d - 1)))
        }
        3 => {
            let n = 1 + t.choose(2);
            Sk::Tuple((0..n).map(|_| gen_sk(t, d - 1)).collect())
        }
        4 => Sk::Slice(Box::new(gen_sk(t, d - 1))),
        5 | 6 => Sk::Adt(t.choose(3), Box::new(gen_sk(t, d - 1))),
        7 => Sk::Mix(Box::new(gen_sk(t, d - 1))),
        _ => Sk::AdtL(t.choose(3)),
    }
}

fn count_lts(s: &Sk) -> usize {
    match s {
        Sk::Leaf => 0,
        Sk::Ref(_, x) | Sk::Mix(x) => 1 + count_lts(x),
        Sk::Fn(a, r) => a.iter().map(count_lts).sum::<usize>() + count_lts(r),
        Sk::Tuple(a) => a.iter().map(count_lts).sum(),
        Sk::Slice(x) | Sk::Adt(_, x) => count_lts(x),
        Sk::AdtL(_) => 1,
    }
}

fn lt_name(l: &Lt) -> String {
    match l {
        Lt::Static => "'static".into(),
        Lt::Ph(i) => format!("'p{}", i),
        Lt::Unk(i) => format!("'u{}", i),
        Lt::CVar(i) => format!("'^{}", i),
        Lt::PhRaw(u, i) => format!("'!{}_{}", u, i),
    }
}

fn print(s: &Sk, lts: &[Lt], k: &mut usize) -> String {
    match s {
        Sk::Leaf => "u32".into(),
        Sk::Ref(m, x) => {
            let l = lt_name(&lts[*k]);
            *k += 1;
            format!("&{} {}{}", l, if *m { "mut " } else { "" }, print(x, lts, k))
        }
        Sk::Fn(a, r) => {
            let args: Vec<String> = a.iter().map(|x| print(x, lts, k)).collect();
            let ret = print(r, lts, k);
            format!("fn({}) -> {}", args.join(", "), ret)
        }
        Sk::Tuple(a) => {
            let args: Vec<String> = a.iter().map(|x| print(x, lts, k)).collect();
            format!("({},)", args.join(", "))
        }
        Sk::Slice(x) => format!("[{}]", print(x, lts, k)),
        Sk::Adt(i, x) => format!("{}<{}>", ["Co", "Contra", "Inv"][*i], print(x, lts, k)),
        Sk::AdtL(i) => {
            let l = lt_name(&lts[*k]);
            *k += 1;
            format!("{}<{}>", ["CoL", "ContraL", "InvL"][*i], l)
        }
        Sk::Mix(x) => {
            let l = lt_name(&lts[*k]);
            *k += 1;
            format!("Mix<{}, {}>", l, print(x, lts, k))
        }
    }
}

/// expected outlives requirements of A <: B (same skeleton). Convention blessed by the pinned tests
/// `ref_lifetime_variance` (&'a T <: &'b T gives 'a: 'b) and `struct_lifetime_variance`
/// (#[variance(Covariant)] Foo<'a> <: Foo<'b> gives 'b: 'a): a lifetime pair related covariantly
/// yields `b: a`, contravariantly `a: b`, invariantly both; the lifetime of a reference is a
/// contravariant position.
fn walk(s: &Sk, la: &[Lt], lb: &[Lt], k: &mut usize, v: V, out: &mut BTreeSet<(Lt, Lt)>) {
    let mut req = |a: &Lt, b: &Lt, v: V| {
        if a == b {
            return;
        }
        match v {
            V::Co => {
                out.insert((b.clone(), a.clone()));
            }
            V::Contra => {
                out.insert((a.clone(), b.clone()));
            }
            V::Inv => {
                out.insert((a.clone(), b.clone()));
                out.insert((b.clone(), a.clone()));
            }
        }
    };
    match s {
        Sk::Leaf => {}
        Sk::Ref(m, x) => {
            req(&la[*k], &lb[*k], v.xform(V::Contra));
            *k += 1;
            walk(x, la, lb, k, v.xform(if *m { V::Inv } else { V::Co }), out);
        }
        Sk::Fn(a, r) => {
            for x in a {
                walk(x, la, lb, k, v.xform(V::Contra), out);
            }
            walk(r, la, lb, k, v, out);
        }
        Sk::Tuple(a) => {
            for x in a {
                walk(x, la, lb, k, v, out);
            }
        }
        Sk::Slice(x) => walk(x, la, lb, k, v, out),
        Sk::Adt(i, x) => walk(x, la, lb, k, v.xform([V::Co, V::Contra, V::Inv][*i]), out),
        Sk::AdtL(i) => {
            req(&la[*k], &lb[*k], v.xform([V::Co, V::Contra, V::Inv][*i]));
            *k += 1;
        }
        Sk::Mix(x) => {
            req(&la[*k], &lb[*k], v.xform(V::Contra));
            *k += 1;
            walk(x, la, lb, k, v.xform(V::Co), out);
        }
    }
}

fn closure(edges: &BTreeSet<(Lt, Lt)>) -> BTreeSet<(Lt, Lt)> {
    let mut c = edges.clone();
    loop {
        let mut add = vec![];
        for (a, b) in &c {
            for (b2, d) in &c {
                if b == b2 && !c.contains(&(a.clone(), d.clone())) && a != d {
                    add.push((a.clone(), d.clone()));
                }
            }
        }
        if add.is_empty() {
            break;
        }
        c.extend(add);
    }
    c
}

fn conv_lt(l: &Lifetime<ChalkIr>) -> Option<Lt> {
    match l.data(I) {
        LifetimeData::Static => Some(Lt::Static),
        LifetimeData::Placeholder(p) => Some(Lt::PhRaw(p.ui.counter, p.idx)),
        LifetimeData::BoundVar(b) => Some(Lt::CVar(b.index)),
        _ => None,
    }
}

const PROGRAM: &str = "
#[variance(Covariant)] struct Co<T> {}
#[variance(Contravariant)] struct Contra<T> {}
struct Inv<T> {}
#[variance(Covariant)] struct CoL<'a> {}
#[variance(Contravariant)] struct ContraL<'a> {}
struct InvL<'a> {}
#[variance(Contravariant, Covariant)] struct Mix<'a, T> {}
";

fn program() -> &'static Arc<chalk_integration::program::Program> {
    static P: OnceLock<Arc<chalk_integration::program::Program>> = OnceLock::new();
    P.get_or_init(|| lower_program(PROGRAM).expect("C29 program lowers"))
}

/// structural mutation of one side: a different skeleton somewhere
fn mutate(t: &mut Tape, s: &Sk) -> Sk {
    if t.chance(30) {
        return match s {
            Sk::Leaf => Sk::Tuple(vec![Sk::Leaf]),
            Sk::Ref(m, x) => Sk::Ref(!*m, x.clone()),
            Sk::Slice(x) => Sk::Tuple(vec![(**x).clone()]),
            Sk::Adt(i, x) => Sk::Adt((*i + 1) % 3, x.clone()),
            Sk::AdtL(i) => Sk::AdtL((*i + 1) % 3),
            Sk::Tuple(a) => {
                let mut b = a.clone();
                b.push(Sk::Leaf);
                Sk::Tuple(b)
            }
            Sk::Fn(a, r) => {
                let mut b = a.clone();
                b.push(Sk::Leaf);
                Sk::Fn(b, r.clone())
            }
            Sk::Mix(x) => Sk::Adt(0, x.clone()),
        };
    }
    match s {
        Sk::Ref(m, x) => Sk::Ref(*m, Box::new(mutate(t, x))),
        Sk::Slice(x) => Sk::Slice(Box::new(mutate(t, x))),
        Sk::Adt(i, x) => Sk::Adt(*i, Box::new(mutate(t, x))),
        Sk::Mix(x) => Sk::Mix(Box::new(mutate(t, x))),
        Sk::Tuple(a) if !a.is_empty() => {
            let k = t.choose(a.len());
            Sk::Tuple(a.iter().enumerate().map(|(i, x)| if i == k { mutate(t, x) } else { x.clone() }).collect())
        }
        Sk::Fn(a, r) => Sk::Fn(a.clone(), Box::new(mutate(t, r))),
        o => mutate_leaf(o),
    }
}
fn mutate_leaf(s: &Sk) -> Sk {
    match s {
        Sk::Leaf => Sk::Slice(Box::new(Sk::Leaf)),
        Sk::AdtL(i) => Sk::AdtL((*i + 1) % 3),
        o => o.clone(),
    }
}

impl Property for C29 {
    type Case = Case;
    fn id(&self) -> &'static str {
        "C29"
    }
    fn rule(&self) -> String {
        "case = a skeleton type of depth <= 4 over &, &mut, fn pointers without higher-ranked lifetimes, tuples, slices and ADTs with declared variances (covariant / contravariant / invariant type parameter; lifetime parameter; a mixed two-parameter ADT) instantiated twice with lifetimes from 'static, three forall-bound placeholders and two exists-bound unknowns (unknowns quantified inside or outside the forall); in a quarter of the cases one side's structure is mutated. The goal Subtype(A, B) is solved by both solvers. Oracle: an independent variance walk gives the expected set E of outlives requirements (convention blessed by the pinned tests ref_lifetime_variance and struct_lifetime_variance); same structure => Unique with substitution s and constraints C such that s(E) and C entail each other under reflexivity + transitivity of outlives; different structure => not Unique. Non-trivial = >= 2 lifetime positions with different composed variances or >= 1 expected constraint; distinct by hash of the goal text and solver.".into()
    }
    fn assumptions(&self) -> Vec<String> {
        vec!["two unknown lifetimes related to each other may be unified by chalk instead of constrained (accepted: the entailment is checked after applying the returned substitution)".into()]
    }
    fn cases_per_shard(&self, tier: Tier) -> u32 {
        tier.pick(400, 8000)
    }
    fn tape_len(&self, _tier: Tier) -> usize {
        200
    }
    fn decode(&self, t: &mut Tape, _tier: Tier) -> Case {
        let sk = loop {
            let s = gen_sk(t, 3);
            if count_lts(&s) > 0 || t.exhausted() {
                break s;
            }
        };
        let use_unknowns = t.chance(50);
        let pick = |t: &mut Tape| -> Lt {
            match t.choose(if use_unknowns { 6 } else { 4 }) {
                0 => Lt::Static,
                1 | 2 | 3 => Lt::Ph(t.choose(3)),
                _ => Lt::Unk(t.choose(2)),
            }
        };
        let nl = count_lts(&sk);
        let la: Vec<Lt> = (0..nl).map(|_| pick(t)).collect();
        let sk_b = if t.chance(25) { mutate(t, &sk) } else { sk.clone() };
        let nb = count_lts(&sk_b);
        let mut lb: Vec<Lt> = la.iter().map(|l| if t.chance(50) { l.clone() } else { pick(t) }).collect();
        lb.resize(nb, Lt::Static);
        Case { sk, sk_b, la, lb, exists_outer: t.chance(25) }
    }
    fn describe(&self, c: &Case) -> Value {
        json!({"program": PROGRAM, "goal": goal_text(c)})
    }
    fn shrink(&self, c: &Case) -> Vec<Case> {
        // replace the skeleton by a sub-skeleton (only for unmutated cases)
        if c.sk != c.sk_b {
            return vec![];
        }
        fn subs(s: &Sk) -> Vec<Sk> {
            match s {
                Sk::Ref(_, x) | Sk::Slice(x) | Sk::Adt(_, x) | Sk::Mix(x) => vec![(**x).clone()],
                Sk::Tuple(a) => a.clone(),
                Sk::Fn(a, r) => {
                    let mut v = a.clone();
                    v.push((**r).clone());
                    v
                }
                _ => vec![],
            }
        }
        // lifetimes are consumed in pre-order: compute the offset of each sub-skeleton
        let mut out = vec![];
        let own = match &c.sk {
            Sk::Ref(..) | Sk::Mix(..) => 1,
            _ => 0,
        };
        let mut off = own;
        for s in subs(&c.sk) {
            let n = count_lts(&s);
            if n > 0 {
                out.push(Case { sk: s.clone(), sk_b: s.clone(), la: c.la[off..off + n].to_vec(), lb: c.lb[off..off + n].to_vec(), exists_outer: c.exists_outer });
            }
            off += n;
        }
        out
    }
    fn run(&self, c: &Case, _tier: Tier) -> CaseOut {
        let mut out = CaseOut::default();
        let program = program();
        let gtext = goal_text(c);
        let same_structure = c.sk == c.sk_b;
        let mut expected = BTreeSet::new();
        if same_structure {
            let mut k = 0;
            walk(&c.sk, &c.la, &c.lb, &mut k, V::Co, &mut expected);
        }
        chalk_integration::tls::set_current_program(program, || {
            let goal = match chalk_parse::parse_goal(&gtext).map_err(|e| e.to_string()).and_then(|g| lower_goal(&*g, &**program).map_err(|e| e.to_string())) {
                Ok(g) => g,
                Err(e) => {
                    out.fail("lowering/goal-rejected", format!("generated goal does not lower: {}\n{}", e, gtext));
                    return;
                }
            };
            let peeled = goal.into_peeled_goal(I);
            // canonical binder order = first occurrence in A then B
            let mut unk_order: Vec<usize> = vec![];
            for l in c.la.iter().chain(c.lb.iter()) {
                if let Lt::Unk(i) = l {
                    if !unk_order.contains(i) {
                        unk_order.push(*i);
                    }
                }
            }
            for sv in Sv::BOTH {
                out.evals += 1;
                let (run, _) = solve_fresh(&**program, sv.choice(), &peeled, DEFAULT_BUDGET);
                let sol = match run {
                    Run::Done(s) => s,
                    Run::Panic(m) => {
                        out.fail(format!("{}:panic:{}", sv.name(), m), format!("[{}] panic {}\ngoal: {}", sv.name(), m, gtext));
                        continue;
                    }
                    _ => continue,
                };
                let rendered = render(&sol);
                if !same_structure {
                    out.bump("structure_differs");
                    if matches!(sol, Some(Solution::Unique(_))) {
                        out.fail(format!("{}:unique-although-structures-differ", sv.name()), format!("[{}] structures differ but the answer is `{}`\ngoal: {}", sv.name(), rendered, gtext));
                    }
                    continue;
                }
                let cs = match sol {
                    Some(Solution::Unique(cs)) => cs,
                    _ => {
                        out.fail(format!("{}:not-unique-although-structures-agree", sv.name()), format!("[{}] structures agree but the answer is `{}`\ngoal: {}", sv.name(), rendered, gtext));
                        continue;
                    }
                };
                let mut sigma: BTreeMap<usize, Lt> = BTreeMap::new();
                for (i, a) in cs.value.subst.iter(I).enumerate() {
                    if let (Some(l), Some(u)) = (a.lifetime(I), unk_order.get(i)) {
                        if let Some(x) = conv_lt(l) {
                            sigma.insert(*u, x);
                        }
                    }
                }
                let map = |l: &Lt| -> Lt {
                    match l {
                        Lt::Ph(i) => Lt::PhRaw(1, *i),
                        Lt::Unk(i) => sigma.get(i).cloned().unwrap_or(Lt::Unk(*i)),
                        o => o.clone(),
                    }
                };
                let se: BTreeSet<(Lt, Lt)> = expected.iter().map(|(a, b)| (map(a), map(b))).filter(|(a, b)| a != b).collect();
                let mut got: BTreeSet<(Lt, Lt)> = BTreeSet::new();
                let mut odd = false;
                for cons in cs.value.constraints.iter(I) {
                    match &cons.goal {
                        Constraint::LifetimeOutlives(a, b) => match (conv_lt(a), conv_lt(b)) {
                            (Some(a), Some(b)) => {
                                if a != b {
                                    got.insert((a, b));
                                }
                            }
                            _ => odd = true,
                        },
                        Constraint::TypeOutlives(..) => odd = true,
                    }
                }
                if odd {
                    out.fail(format!("{}:unexpected-constraint-kind", sv.name()), format!("[{}] unexpected constraint in `{}`\ngoal: {}", sv.name(), rendered, gtext));
                    continue;
                }
                let (cse, cg) = (closure(&se), closure(&got));
                let missing: Vec<String> = se.iter().filter(|e| !cg.contains(e)).map(|(a, b)| format!("{}: {}", lt_name(a), lt_name(b))).collect();
                let extra: Vec<String> = got.iter().filter(|e| !cse.contains(e)).map(|(a, b)| format!("{}: {}", lt_name(a), lt_name(b))).collect();
                if !missing.is_empty() || !extra.is_empty() {
                    let sig = if !missing.is_empty() { "missing-outlives-requirement" } else { "extra-outlives-requirement" };
                    out.fail(
                        format!("{}:{}", sv.name(), sig),
                        format!("[{}] goal: {}\nexpected (substitution applied): {:?}\nreturned: {:?}\nmissing: {:?} extra: {:?}\nanswer: {}", sv.name(), gtext, se.iter().map(|(a, b)| format!("{}: {}", lt_name(a), lt_name(b))).collect::<Vec<_>>(), got.iter().map(|(a, b)| format!("{}: {}", lt_name(a), lt_name(b))).collect::<Vec<_>>(), missing, extra, rendered),
                    );
                    continue;
                }
                if !se.is_empty() || count_lts(&c.sk) >= 2 {
                    out.nontrivial.push(hash_of(&(&gtext, sv.name())));
                    if out.sample.is_none() && !se.is_empty() {
                        out.sample = Some(json!({"goal": gtext, "solver": sv.name(), "answer": rendered, "expected_outlives": se.iter().map(|(a, b)| format!("{}: {}", lt_name(a), lt_name(b))).collect::<Vec<_>>()}));
                    }
                }
            }
        });
        out
    }
}

fn goal_text(c: &Case) -> String {
    let (mut ka, mut kb) = (0, 0);
    let ta = print(&c.sk, &c.la, &mut ka);
    let tb = print(&c.sk_b, &c.lb, &mut kb);
    let inner = format!("Subtype({}, {})", ta, tb);
    if c.exists_outer {
        format!("exists<'u0, 'u1> {{ forall<'p0, 'p1, 'p2> {{ {} }} }}", inner)
    } else {
        format!("forall<'p0, 'p1, 'p2> {{ exists<'u0, 'u1> {{ {} }} }}", inner)
    }
}
