//! C08 — built-in traits (Sized, Copy, Clone, Tuple, FnPtr) follow the language's structural rules.
use super::common::*;
use crate::drive::*;
use crate::gen::*;
use crate::model::*;
use crate::refsem::*;
use crate::runner::*;
use crate::tape::Tape;
use serde_json::{json, Value};

pub struct C08;

/// types over the program's ADTs, built-in constructors and parameters
pub fn gen_bty(t: &mut Tape, p: &Program, leaves: &[Ty], depth: usize) -> Ty {
    if depth == 0 || t.chance(30) {
        let nullary: Vec<usize> = (0..p.ctors.len()).filter(|i| p.ctors[*i].arity == 0).collect();
        return match t.choose(8) {
            0 | 1 => Ty::Adt(nullary[t.choose(nullary.len())], vec![]),
            2 | 3 => Ty::Bi(Bi::Scalar(t.choose(6) as u8), vec![]),
            4 => Ty::Bi(Bi::Str, vec![]),
            5 => Ty::Bi(Bi::Never, vec![]),
            6 if !leaves.is_empty() => leaves[t.choose(leaves.len())].clone(),
            _ => Ty::Bi(Bi::Tuple, vec![]),
        };
    }
    let d = depth - 1;
    match t.choose(10) {
        0 | 1 => {
            let n = 1 + t.choose(3);
            Ty::Bi(Bi::Tuple, (0..n).map(|_| gen_bty(t, p, leaves, d)).collect())
        }
        2 => Ty::Bi(Bi::Array(1 + t.choose(4) as u8), vec![gen_bty(t, p, leaves, d)]),
        3 => Ty::Bi(Bi::Slice, vec![gen_bty(t, p, leaves, d)]),
        4 => Ty::Bi(Bi::Ref(t.chance(40)), vec![gen_bty(t, p, leaves, d)]),
        5 => Ty::Bi(Bi::Raw(t.chance(50)), vec![gen_bty(t, p, leaves, d)]),
        6 => {
            let n = 1 + t.choose(3);
            Ty::Bi(Bi::FnPtr, (0..n).map(|_| gen_bty(t, p, leaves, d.min(1))).collect())
        }
        7 => {
            let dynable: Vec<usize> = (0..p.traits.len()).filter(|i| p.traits[*i].lang.is_none()).collect();
            if dynable.is_empty() {
                Ty::Bi(Bi::Str, vec![])
            } else {
                Ty::Bi(Bi::Dyn(dynable[t.choose(dynable.len())]), vec![])
            }
        }
        _ => {
            let c = t.choose(p.ctors.len());
            Ty::Adt(c, (0..p.ctors[c].arity).map(|_| gen_bty(t, p, leaves, d)).collect())
        }
    }
}

pub fn gen_builtin_program(t: &mut Tape) -> Program {
    let mut p = Program::default();
    let n0 = 2 + t.choose(3);
    for name in ["A", "B", "C", "D"].iter().take(n0) {
        p.ctors.push(new_ctor(name, 0));
    }
    let n1 = 1 + t.choose(2);
    for name in ["V", "W"].iter().take(n1) {
        p.ctors.push(new_ctor(name, 1));
    }
    for (name, lang) in [("Sized", Lang::Sized), ("Copy", Lang::Copy), ("Clone", Lang::Clone), ("Tuple", Lang::Tuple), ("FnPtr", Lang::FnPtr)] {
        let mut tr = new_trait(name, 0, TraitKind::Inductive);
        tr.lang = Some(lang);
        p.traits.push(tr);
    }
    p.traits.push(new_trait("Foo", 0, TraitKind::Inductive));
    // fields
    for c in 0..p.ctors.len() {
        let params: Vec<Ty> = (0..p.ctors[c].arity).map(Ty::Param).collect();
        let is_enum = t.chance(20);
        let nv = if is_enum { 1 + t.choose(2) } else { 1 };
        let mut variants = vec![];
        for _ in 0..nv {
            let nf = t.choose(4);
            variants.push((0..nf).map(|_| gen_bty(t, &p, &params, 2)).collect());
        }
        p.ctors[c].is_enum = is_enum;
        p.ctors[c].variants = variants;
    }
    // explicit impls of Copy / Clone / Foo
    let ni = 1 + t.choose(7);
    for _ in 0..ni {
        let tr = [1usize, 2, 5][t.choose(3)];
        let np = t.choose(2);
        let params: Vec<Ty> = (0..np).map(Ty::Param).collect();
        let head_ty = match t.choose(8) {
            0 => Ty::Bi(Bi::Scalar(t.choose(6) as u8), vec![]),
            1 if np > 0 => Ty::Bi(Bi::Ref(false), vec![params[0].clone()]),
            2 if np > 0 => Ty::Bi(Bi::Raw(t.chance(50)), vec![params[0].clone()]),
            3 => Ty::Bi(Bi::Never, vec![]),
            _ => {
                let c = t.choose(p.ctors.len());
                Ty::Adt(c, (0..p.ctors[c].arity).map(|_| if np > 0 && t.chance(70) { params[0].clone() } else { gen_bty(t, &p, &[], 1) }).collect())
            }
        };
        let mut used = vec![];
        head_ty.collect_params(&mut used);
        let nparams = used.len();
        let mut wcs = vec![];
        if nparams > 0 && t.chance(60) {
            wcs.push(TRef { tr: [1usize, 2, 0, 5][t.choose(4)], args: vec![Ty::Param(0)] });
        }
        p.impls.push(ImplDef { nparams, head: TRef { tr, args: vec![head_ty] }, wcs, positive: true, values: vec![], upstream: false });
    }
    p
}

impl Property for C08 {
    type Case = PG;
    fn id(&self) -> &'static str {
        "C08"
    }
    fn rule(&self) -> String {
        "case = generated program declaring the lang-item traits Sized, Copy, Clone, Tuple (tuple_trait), FnPtr (fn_ptr_trait) and a user trait, structs/enums with fields over tuples, arrays, slices, references, raw pointers, fn pointers, scalars, str, !, dyn Trait and ADTs, explicit Copy / Clone impls (for ADTs, scalars, shared references, raw pointers, generic with where-clauses), and 5 closed goals over nested types of depth <= 4. Oracle: a rule table written from the property text and the book's well-known-traits table (Sized: last field / last tuple element, never for str / slices / dyn; Copy and Clone: tuples and arrays through their elements, fn pointers always, everything else only through the program's impls; Tuple iff tuple; FnPtr iff fn pointer) evaluated as Horn clauses together with the explicit impls; closed goals within limits must be answered Unique / 'No possible solution' accordingly by both solvers. Non-trivial = goal whose type has depth >= 2 and whose decision passes through >= 2 rule applications; distinct by hash of (program, goal, solver).".into()
    }
    fn assumptions(&self) -> Vec<String> {
        vec!["rule table in harness/src/builtin.rs; programs are lowered only (an explicit Copy impl on a non-Copy-able struct is accepted as a Horn clause)".into()]
    }
    fn cases_per_shard(&self, tier: Tier) -> u32 {
        tier.pick(500, 6000)
    }
    fn decode(&self, t: &mut Tape, _tier: Tier) -> PG {
        let program = gen_builtin_program(t);
        let goals = (0..5)
            .map(|_| {
                let tr = [0usize, 0, 1, 1, 2, 2, 3, 4, 5][t.choose(9)];
                let ty = gen_bty(t, &program, &[], 3);
                let mut body = vec![Lit::Holds(TRef { tr, args: vec![ty] })];
                if t.chance(15) {
                    body.push(Lit::Holds(TRef { tr: t.choose(6), args: vec![gen_bty(t, &program, &[], 2)] }));
                }
                Goal { prefix: vec![], body }
            })
            .collect();
        PG { program, goals }
    }
    fn describe(&self, case: &PG) -> Value {
        case.describe()
    }
    fn shrink(&self, case: &PG) -> Vec<PG> {
        case.shrink()
    }
    fn run(&self, case: &PG, _tier: Tier) -> CaseOut {
        let mut out = CaseOut::default();
        let low = match lower_pg(case, &mut out) {
            Some(l) => l,
            None => return out,
        };
        let names = Names { program: &low.program, model: &case.program };
        with_program(&low, || {
            for (gi, g) in case.goals.iter().enumerate() {
                let lg = match &low.goals[gi] {
                    Some(x) => x,
                    None => continue,
                };
                let sets = solution_sets(&case.program, g, 1, 5);
                let v = if !sets.s.is_empty() {
                    Tri::True
                } else if !sets.n.is_empty() {
                    Tri::False
                } else {
                    Tri::Unknown
                };
                let depth = g.body.iter().map(|l| if let Lit::Holds(t) = l { t.args[0].depth() } else { 0 }).max().unwrap_or(0);
                let lang = g.body.iter().filter_map(|l| if let Lit::Holds(t) = l { case.program.traits[t.tr].lang } else { None }).next();
                for sv in Sv::BOTH {
                    let sol = match solve_judged(&low, lg, sv, &mut out) {
                        Some(s) => s,
                        None => continue,
                    };
                    let rendered = render(&sol);
                    let ans = match names.convert(&lg.peeled, &sol) {
                        Ok(a) => a,
                        Err(_) => continue,
                    };
                    let trait_tag = lang.map(|l| format!("{:?}", l)).unwrap_or_else(|| "user".into());
                    if let Some((class, msg)) = check_answer(&case.program, &lg.peeled, &ans, &sets) {
                        out.fail(format!("{}:{}:{}", sv.name(), class, trait_tag), format!("[{}] {}\n{}goal: {}\nanswer: {}", sv.name(), msg, low.text, lg.text, rendered));
                        continue;
                    }
                    let within = v.definite() && !sets.st.incomplete && sets.st.max_size + 2 <= 10 && sets.st.atoms * 3 < 100;
                    if !within {
                        out.bump("outside_limits_or_oracle_unknown(not judged)");
                        continue;
                    }
                    if matches!(ans, Ans::Ambig | Ans::Definite(..)) {
                        out.fail(format!("{}:closed-goal-ambiguous:{}", sv.name(), trait_tag), format!("[{}] closed goal answered `{}` but the rule table says {:?}\n{}goal: {}", sv.name(), rendered, v, low.text, lg.text));
                        continue;
                    }
                    out.bump(&format!("judged:{}:{:?}", trait_tag, v));
                    if depth >= 2 && sets.st.rule_apps >= 2 {
                        out.nontrivial.push(hash_of(&(&low.text, &lg.text, sv.name())));
                        if out.sample.is_none() {
                            out.sample = Some(json!({"program": low.text, "goal": lg.text, "solver": sv.name(), "answer": rendered, "rule_table_value": format!("{:?}", v)}));
                        }
                    }
                }
            }
        });
        out
    }
}
