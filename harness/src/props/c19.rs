//! C19 — coherence checking is total and its accepted priorities are consistent.
use crate::drive::*;
use crate::gen::*;
use crate::model::*;
use crate::refsem::*;
use crate::runner::*;
use crate::tape::Tape;
use chalk_integration::db::ChalkDatabase;
use chalk_integration::query::LoweringDatabase;
use chalk_integration::SolverChoice;
use serde::{Deserialize, Serialize};
use serde_json::{json, Value};

pub struct C19;

#[derive(Clone, Debug, Serialize, Deserialize)]
pub struct Case {
    pub program: Program,
}

/// F-coh: impl sets for one trait with controlled header relations
pub fn gen_coh_program(t: &mut Tape) -> Program {
    let mut p = Program::default();
    p.ctors.push(new_ctor("A", 0));
    p.ctors.push(new_ctor("B", 0));
    p.ctors.push(new_ctor("V", 1));
    p.ctors.push(new_ctor("P", 2));
    let (a, b, v, pp) = (0usize, 1usize, 2usize, 3usize);
    let extra = if t.chance(25) { 1 } else { 0 };
    let mut foo = new_trait("Foo", extra, TraitKind::Inductive);
    foo.marker = t.chance(8);
    p.traits.push(foo);
    p.traits.push(new_trait("Bar", 0, TraitKind::Inductive));
    p.traits.push(new_trait("Baz", 0, TraitKind::Inductive));
    // helper facts
    for (tr, c) in [(1usize, a), (1, b), (2, a), (2, b)] {
        if t.chance(50) {
            p.impls.push(ImplDef { nparams: 0, head: TRef { tr, args: vec![Ty::Adt(c, vec![])] }, wcs: vec![], positive: true, values: vec![], upstream: false });
        }
    }
    if t.chance(30) {
        p.impls.push(ImplDef { nparams: 1, head: TRef { tr: 1, args: vec![Ty::Adt(v, vec![Ty::Param(0)])] }, wcs: vec![], positive: true, values: vec![], upstream: false });
    }
    let tya = Ty::Adt(a, vec![]);
    let tyb = Ty::Adt(b, vec![]);
    let p0 = Ty::Param(0);
    let p1 = Ty::Param(1);
    let heads: Vec<(usize, Ty)> = vec![
        (1, p0.clone()),
        (1, Ty::Adt(v, vec![p0.clone()])),
        (1, Ty::Adt(v, vec![Ty::Adt(v, vec![p0.clone()])])),
        (0, Ty::Adt(v, vec![tya.clone()])),
        (0, Ty::Adt(v, vec![tyb.clone()])),
        (0, Ty::Adt(v, vec![Ty::Adt(v, vec![tya.clone()])])),
        (0, tya.clone()),
        (0, tyb.clone()),
        (2, Ty::Adt(pp, vec![p0.clone(), p1.clone()])),
        (1, Ty::Adt(pp, vec![p0.clone(), p0.clone()])),
        (1, Ty::Adt(pp, vec![tya.clone(), p0.clone()])),
        (1, Ty::Adt(pp, vec![p0.clone(), tyb.clone()])),
        (0, Ty::Adt(pp, vec![tya.clone(), tyb.clone()])),
        (1, Ty::Adt(pp, vec![Ty::Adt(v, vec![p0.clone()]), p0.clone()])),
    ];
    // shape knob: deep specialisation chains (every impl specialises the previous one), in shuffled order, without
    // where-clauses or extra trait parameter so that the whole chain is accepted
    let chain = extra == 0 && t.chance(25);
    let chain_heads: Vec<(usize, Ty)> = if chain {
        let vv = |x: Ty| Ty::Adt(v, vec![x]);
        let mut c = if t.chance(60) {
            vec![(1, p0.clone()), (1, vv(p0.clone())), (1, vv(vv(p0.clone()))), (1, vv(vv(vv(p0.clone())))), (0, vv(vv(vv(tya.clone()))))]
        } else {
            vec![(1, p0.clone()), (2, Ty::Adt(pp, vec![p0.clone(), p1.clone()])), (1, Ty::Adt(pp, vec![tya.clone(), p0.clone()])), (1, Ty::Adt(pp, vec![tya.clone(), vv(p0.clone())])), (0, Ty::Adt(pp, vec![tya.clone(), vv(tyb.clone())]))]
        };
        // drop one link at random (chains of 4 and 5), then shuffle the declaration order
        if t.chance(50) {
            let k = t.choose(c.len());
            c.remove(k);
        }
        t.shuffle(&mut c);
        c
    } else {
        vec![]
    };
    let n = if chain { chain_heads.len() } else { 2 + t.choose(4) };
    for i in 0..n {
        let (np, head) = if chain { chain_heads[i].clone() } else { heads[t.choose(heads.len())].clone() };
        let mut np = np;
        let mut args = vec![head];
        if extra == 1 {
            args.push(match t.choose(4) {
                0 => tya.clone(),
                1 => tyb.clone(),
                2 if np > 0 => p0.clone(),
                _ => {
                    np += 1;
                    Ty::Param(np - 1)
                }
            });
        }
        let mut wcs = vec![];
        if np > 0 && !chain {
            match t.choose(5) {
                0 => wcs.push(TRef { tr: 1, args: vec![p0.clone()] }),
                1 => wcs.push(TRef { tr: 2, args: vec![p0.clone()] }),
                2 => {
                    wcs.push(TRef { tr: 1, args: vec![p0.clone()] });
                    wcs.push(TRef { tr: 2, args: vec![p0.clone()] });
                }
                _ => {}
            }
        }
        let positive = chain || !t.chance(8);
        p.impls.push(ImplDef { nparams: np, head: TRef { tr: 0, args }, wcs: if positive { wcs } else { vec![] }, positive, values: vec![], upstream: false });
    }
    p
}

/// does impl `im` apply to the ground trait reference (header matches, where-clauses hold)?
pub fn applies(p: &Program, ge: &mut GoalEval, im: &ImplDef, tr: &TRef) -> Tri {
    let mut b = vec![None; im.nparams];
    if !im.head.args.iter().zip(&tr.args).all(|(x, y)| match_params(x, y, &mut b)) {
        return Tri::False;
    }
    if b.iter().any(|x| x.is_none()) {
        return Tri::Unknown;
    }
    let s: Vec<Ty> = b.into_iter().map(|x| x.unwrap()).collect();
    let mut ok = Tri::True;
    for wc in &im.wcs {
        ok = ok.and(ge.holds(&wc.subst_params(&s), &vec![]));
    }
    ok
}

impl Property for C19 {
    type Case = Case;
    fn id(&self) -> &'static str {
        "C19"
    }
    fn rule(&self) -> String {
        "case = generated program with 2-5 impls of one trait (optionally a marker trait or with a type parameter) whose headers are drawn from a pool with controlled relations — blanket `T`, `V<T>`, `V<V<T>>`, ground `V<A>`, `V<B>`, `V<V<A>>`, `A`, `B`, `P<T,U>`, `P<T,T>`, `P<A,T>`, `P<T,B>`, `P<A,B>`, `P<V<T>,T>` (identical headers, chains and diamonds of specialisation, partial overlaps; a quarter of the programs are pure specialisation chains of depth 4-5 in shuffled declaration order) — with where-clause variants over helper traits and occasional negative impls. Oracle: LoweringDatabase::coherence() under both solvers returns Ok or Err, never panics; on Ok, over the bounded universe of concrete trait references (types of depth <= 3) with `applies(impl, ref)` from the reference evaluator: two impls (not both negative, trait not a marker) that both apply to some reference must both carry priorities and they must differ, and if A's applicable references are a strict subset of B's within the universe then priority(A) > priority(B). Non-trivial = program with >= 3 impls of the trait and at least one pair sharing an applicable reference; distinct by hash of the program.".into()
    }
    fn assumptions(&self) -> Vec<String> {
        vec!["chalk may reject more than the bounded model would (it reasons over all compatible worlds); only accepted programs are judged for priorities".into()]
    }
    fn cases_per_shard(&self, tier: Tier) -> u32 {
        tier.pick(120, 3000)
    }
    fn decode(&self, t: &mut Tape, _tier: Tier) -> Case {
        Case { program: gen_coh_program(t) }
    }
    fn describe(&self, c: &Case) -> Value {
        json!({"program": print_program(&c.program)})
    }
    fn shrink(&self, c: &Case) -> Vec<Case> {
        shrink_program(&c.program).into_iter().map(|program| Case { program }).collect()
    }
    fn run(&self, case: &Case, _tier: Tier) -> CaseOut {
        let mut out = CaseOut::default();
        let p = &case.program;
        let text = print_program(p);
        let foo_impls: Vec<usize> = (0..p.impls.len()).filter(|i| p.impls[*i].head.tr == 0).collect();
        for (sname, choice) in [("slg", SolverChoice::slg_default()), ("rec", SolverChoice::recursive_default())] {
            out.evals += 1;
            let (run, _) = guarded(DEFAULT_BUDGET * 10, || {
                let db = ChalkDatabase::with(&text, choice);
                let program = db.program_ir().map_err(|e| format!("lowering: {}", e))?;
                let pri = db.coherence().map_err(|e| e.to_string())?;
                // priorities of the Foo impls, in declaration order (impl ids are assigned in item order)
                let trait_id = *program.trait_ids.iter().find(|(k, _)| k.to_string() == "Foo").map(|(_, v)| v).ok_or("no Foo")?;
                let sp = pri.get(&trait_id).ok_or("no priorities for Foo")?.clone();
                let mut ids: Vec<_> = program.impl_data.iter().filter(|(_, d)| d.trait_id() == trait_id).map(|(id, _)| *id).collect();
                ids.sort();
                let pr: Vec<Option<String>> = ids.iter().map(|id| std::panic::catch_unwind(std::panic::AssertUnwindSafe(|| format!("{:?}", sp.priority(*id)))).ok()).collect();
                let ord: Vec<Option<usize>> = pr.iter().map(|s| s.as_ref().and_then(|s| s.trim_start_matches("SpecializationPriority(").trim_end_matches(')').parse().ok())).collect();
                Ok::<_, String>(ord)
            });
            let pri = match run {
                Run::Done(Ok(p)) => p,
                Run::Done(Err(e)) => {
                    if e.starts_with("lowering") {
                        out.fail("lowering/program-rejected", format!("{}\n{}", e, text));
                    } else {
                        out.bump(&format!("{}:rejected", sname));
                    }
                    continue;
                }
                Run::Panic(m) => {
                    out.fail(format!("{}:coherence-check-panics:{}", sname, m.chars().take(90).collect::<String>()), format!("[{}] the coherence check panicked: {}\n{}", sname, m, text));
                    continue;
                }
                Run::Budget | Run::Overflow => {
                    out.bump(&format!("{}:budget/overflow(not judged, see C09)", sname));
                    continue;
                }
            };
            out.bump(&format!("{}:accepted", sname));
            if p.traits[0].marker || pri.len() != foo_impls.len() {
                continue;
            }
            // reference applicability sets over the bounded universe
            let uni = universe(p, &[], 3, 40);
            let extras: Vec<Vec<Ty>> = if p.traits[0].extra == 0 { vec![vec![]] } else { uni.iter().take(6).map(|x| vec![x.clone()]).collect() };
            let mut ge = GoalEval::new(p);
            let mut sets: Vec<Vec<bool>> = vec![vec![]; foo_impls.len()];
            let mut unknown = false;
            for s in &uni {
                for ex in &extras {
                    let mut args = vec![s.clone()];
                    args.extend(ex.clone());
                    let tr = TRef { tr: 0, args };
                    for (k, ii) in foo_impls.iter().enumerate() {
                        match applies(p, &mut ge, &p.impls[*ii], &tr) {
                            Tri::True => sets[k].push(true),
                            Tri::False => sets[k].push(false),
                            Tri::Unknown => {
                                unknown = true;
                                sets[k].push(false)
                            }
                        }
                    }
                }
            }
            if unknown {
                out.bump("oracle_unknown(not judged)");
                continue;
            }
            let mut shared_pair = false;
            for x in 0..foo_impls.len() {
                for y in (x + 1)..foo_impls.len() {
                    let (ix, iy) = (&p.impls[foo_impls[x]], &p.impls[foo_impls[y]]);
                    if !ix.positive && !iy.positive {
                        continue;
                    }
                    let share = sets[x].iter().zip(&sets[y]).any(|(a, b)| *a && *b);
                    if !share {
                        continue;
                    }
                    shared_pair = true;
                    let ctx = |msg: String| format!("[{}] {}\nimpl #{}: {}\nimpl #{}: {}\npriorities: {:?}\n{}", sname, msg, x, print_impl(p, ix), y, print_impl(p, iy), pri, text);
                    match (pri[x], pri[y]) {
                        (Some(a), Some(b)) if a != b => {
                            let x_minus_y = sets[x].iter().zip(&sets[y]).any(|(a, b)| *a && !*b);
                            let y_minus_x = sets[x].iter().zip(&sets[y]).any(|(a, b)| !*a && *b);
                            if y_minus_x && !x_minus_y && a < b {
                                out.fail(format!("{}:more-specific-impl-has-lower-priority", sname), ctx(format!("impl #{} applies to a strict subset of impl #{}'s references but has the lower priority", x, y)));
                            }
                            if x_minus_y && !y_minus_x && b < a {
                                out.fail(format!("{}:more-specific-impl-has-lower-priority", sname), ctx(format!("impl #{} applies to a strict subset of impl #{}'s references but has the lower priority", y, x)));
                            }
                        }
                        _ => out.fail(format!("{}:overlapping-impls-with-equal-priority", sname), ctx("both impls apply to the same trait reference but do not have distinct priorities".into())),
                    }
                }
            }
            if foo_impls.len() >= 3 && shared_pair {
                out.nontrivial.push(hash_of(&(&text, sname)));
                if out.sample.is_none() {
                    out.sample = Some(json!({"program": text, "solver": sname, "accepted": true, "priorities_of_Foo_impls": pri}));
                }
            }
        }
        if foo_impls.len() >= 3 {
            out.nontrivial.push(hash_of(&(&text, "totality")));
        }
        out
    }
}
