//! C14 (unification is sound and most general) and C15 (failed unification leaves the table
//! untouched; order-independent success): one generated history of relate calls per case.
use crate::ir::*;
use crate::runner::*;
use crate::tape::Tape;
use chalk_ir::*;
use chalk_integration::interner::ChalkIr;
use chalk_solve::infer::InferenceTable;
use chalk_ir::cast::Cast;
use chalk_ir::fold::shift::Shift;
use serde::{Deserialize, Serialize};
use serde_json::{json, Value};

#[derive(Clone, Debug, Serialize, Deserialize)]
pub struct UCase {
    pub vars: Vec<(Kind, usize)>,
    pub lts: Vec<usize>,
    pub steps: Vec<(MTy, MTy)>,
}

pub fn decode_ucase(t: &mut Tape) -> UCase {
    let nv = 2 + t.choose(4);
    let vars: Vec<(Kind, usize)> = (0..nv)
        .map(|_| {
            let u = t.choose(NUNIVERSES);
            let kind = match t.choose(8) {
                6 => Kind::Int,
                7 => Kind::Float,
                _ => Kind::General,
            };
            (kind, u)
        })
        .collect();
    let lts: Vec<usize> = (0..2).map(|_| t.choose(NUNIVERSES)).collect();
    let nsteps = 1 + t.choose(4);
    let steps = (0..nsteps)
        .map(|_| {
            if t.chance(60) {
                let base = gen_mty(t, nv, 2, 3);
                (blur(t, nv, 2, &base, 25), blur(t, nv, 2, &base, 25))
            } else {
                (gen_mty(t, nv, 2, 3), gen_mty(t, nv, 2, 3))
            }
        })
        .collect();
    UCase { vars, lts, steps }
}

pub fn shrink_ucase(c: &UCase) -> Vec<UCase> {
    let mut out = vec![];
    for i in 0..c.steps.len() {
        if c.steps.len() > 1 {
            let mut q = c.clone();
            q.steps.remove(i);
            out.push(q);
        }
    }
    fn subterms(t: &MTy) -> Vec<MTy> {
        match t {
            MTy::Adt(_, a) | MTy::Tuple(a) => a.clone(),
            MTy::Slice(x) | MTy::Ref(_, _, x) | MTy::Raw(_, x) => vec![(**x).clone()],
            _ => vec![],
        }
    }
    for i in 0..c.steps.len() {
        let (a, b) = &c.steps[i];
        // replace both sides by aligned subterms
        let (sa, sb) = (subterms(a), subterms(b));
        if sa.len() == sb.len() {
            for k in 0..sa.len() {
                let mut q = c.clone();
                q.steps[i] = (sa[k].clone(), sb[k].clone());
                out.push(q);
            }
        }
        for s in sa {
            let mut q = c.clone();
            q.steps[i].0 = s;
            out.push(q);
        }
        for s in sb {
            let mut q = c.clone();
            q.steps[i].1 = s;
            out.push(q);
        }
    }
    out
}

fn has_ref(t: &MTy) -> bool {
    match t {
        MTy::Ref(..) => true,
        MTy::Adt(_, a) | MTy::Tuple(a) => a.iter().any(has_ref),
        MTy::Slice(x) | MTy::Raw(_, x) => has_ref(x),
        _ => false,
    }
}

/// lifetime pairs at aligned positions of two (reference-resolved) types
fn lifetime_pairs(w: &World, a: &MTy, b: &MTy, out: &mut Vec<(MLt, MLt)>) {
    // syntactic positions only: a variable's value in the reference state is lifetime-erased
    match (a, b) {
        (MTy::Ref(_, l1, x), MTy::Ref(_, l2, y)) => {
            out.push((l1.clone(), l2.clone()));
            lifetime_pairs(w, x, y, out);
        }
        (MTy::Adt(_, p), MTy::Adt(_, q)) | (MTy::Tuple(p), MTy::Tuple(q)) => p.iter().zip(q).for_each(|(x, y)| lifetime_pairs(w, x, y, out)),
        (MTy::Slice(x), MTy::Slice(y)) | (MTy::Raw(_, x), MTy::Raw(_, y)) => lifetime_pairs(w, x, y, out),
        _ => {}
    }
}

fn outlives_goals(goals: &[InEnvironment<Goal<chalk_integration::interner::ChalkIr>>]) -> Vec<(String, String)> {
    let mut v = vec![];
    for g in goals {
        if let GoalData::DomainGoal(DomainGoal::Holds(WhereClause::LifetimeOutlives(o))) = g.goal.data(I) {
            v.push((format!("{:?}", o.a), format!("{:?}", o.b)));
        }
    }
    v
}

/// runs the history; returns (C14 outcome, C15 outcome)
pub fn run_history(case: &UCase) -> (CaseOut, CaseOut) {
    let mut o14 = CaseOut::default();
    let mut o15 = CaseOut::default();
    let db = Db;
    let env = Environment::new(I);
    let mut w = World::new(&case.vars, &case.lts);
    let show = |a: &MTy, b: &MTy, extra: String| format!("relate(Invariant, {:?}, {:?})\nvariables (kind, universe): {:?}\nhistory: {:?}\n{}", a, b, case.vars, case.steps, extra);
    for (si, (a, b)) in case.steps.iter().enumerate() {
        let (ca, cb) = (w.ty(a), w.ty(b));
        let (before_dbg, _, _) = w.chalk_state();
        let before_vars = (w.ty_vars.len(), w.lt_vars.len());
        // order symmetry on clones (C15)
        let mut t1 = w.table.clone();
        let mut t2 = w.table.clone();
        let r_ab = crate::drive::catch(|| t1.relate(I, &db, &env, Variance::Invariant, &ca, &cb).is_ok());
        let r_ba = crate::drive::catch(|| t2.relate(I, &db, &env, Variance::Invariant, &cb, &ca).is_ok());
        o14.evals += 1;
        o15.evals += 1;
        let (ok_ab, ok_ba) = match (r_ab, r_ba) {
            (Ok(x), Ok(y)) => (x, y),
            (Err(m), _) | (_, Err(m)) => {
                o14.fail(format!("panic-in-relate:{}", m), show(a, b, format!("panic: {}", m)));
                break;
            }
        };
        if ok_ab != ok_ba {
            o15.fail("asymmetric-success", show(a, b, format!("relate(a,b) succeeds: {}, relate(b,a) succeeds: {}", ok_ab, ok_ba)));
        }
        // the real relate
        let res = match crate::drive::catch(|| w.table.relate(I, &db, &env, Variance::Invariant, &ca, &cb)) {
            Ok(r) => r,
            Err(m) => {
                o14.fail(format!("panic-in-relate:{}", m), show(a, b, format!("panic: {}", m)));
                break;
            }
        };
        // reference
        let saved_bind = w.bind.clone();
        let saved_univ = w.univ.clone();
        let bound_before = w.bind.len();
        let ref_ok = w.unify(&erase(a), &erase(b));
        let partial_binding = w.bind.len() > bound_before;
        if !ref_ok {
            w.bind = saved_bind;
            w.univ = saved_univ;
        }
        if res.is_ok() != ref_ok {
            o14.fail(if ref_ok { "fails-but-unifiable" } else { "succeeds-but-not-unifiable" }, show(a, b, format!("chalk succeeds: {}, reference unifier succeeds: {}\nstate before: {}", res.is_ok(), ref_ok, before_dbg)));
            break;
        }
        if !ref_ok {
            o14.bump("fail(both)");
            let (after_dbg, _, _) = w.chalk_state();
            if after_dbg != before_dbg || (w.ty_vars.len(), w.lt_vars.len()) != before_vars {
                o15.fail("state-changed-after-failure", show(a, b, format!("state before: {}\nstate after:  {}", before_dbg, after_dbg)));
            }
            // the table must still behave: a trivial relate succeeds
            if partial_binding {
                o15.nontrivial.push(hash_of(&(format!("{:?}", case), si)));
                o15.bump("failing_attempt_bound_something_first");
                if o15.sample.is_none() {
                    o15.sample = Some(json!({"variables": format!("{:?}", case.vars), "history_before": format!("{:?}", &case.steps[..si]), "failing_pair": format!("{:?} ~ {:?}", a, b), "state": before_dbg}));
                }
            }
            // failure classes for C14's non-triviality
            o14.nontrivial.push(hash_of(&(format!("{:?}", case), si, "fail")));
            continue;
        }
        o14.bump("ok(both)");
        // most general: canonical tuple of all type variables equals the reference MGU's
        let (after_dbg, ctys, ckinds) = w.chalk_state();
        let (cnorm, cmap) = renumber(&ctys);
        let rtys: Vec<MTy> = (0..w.ty_vars.len()).map(|v| erase(&w.deep(&MTy::Var(v)))).collect();
        let (rnorm, rmap) = renumber(&rtys);
        if cnorm != rnorm {
            o14.fail("mgu-mismatch", show(a, b, format!("chalk state     {:?}\nreference state {:?}\nraw: {}", cnorm, rnorm, after_dbg)));
            break;
        }
        for (i, (ck, rk)) in cmap.iter().zip(&rmap).enumerate() {
            let (ckind, cuni) = ckinds[ck.1];
            let mut rv = rk.1;
            while let Some(MTy::Var(n)) = w.bind.get(&rv) {
                rv = *n;
            }
            let rkind = w.kind_of(rv);
            if ckind != rkind {
                o14.fail("residual-kind-mismatch", show(a, b, format!("residual variable #{}: chalk kind {:?}, reference kind {:?}", i, ckind, rkind)));
            }
            // a general variable bound to an int/float variable keeps the latter's universe in chalk,
            // harmless since such variables can only become scalars
            if rkind == Kind::General && cuni != w.univ[rv] {
                o14.fail("residual-universe-mismatch", show(a, b, format!("residual variable #{}: chalk universe U{}, reference universe U{}", i, cuni, w.univ[rv])));
            }
        }
        // soundness up to lifetime obligations: every pair of differing non-variable lifetimes at
        // aligned positions is covered by outlives goals in both directions
        if let Ok(r) = &res {
            let mut pairs = vec![];
            lifetime_pairs(&w, a, b, &mut pairs);
            let goals = outlives_goals(&r.goals);
            for (l1, l2) in pairs {
                if l1 == l2 || matches!(l1, MLt::Var(_)) || matches!(l2, MLt::Var(_)) {
                    continue;
                }
                let (s1, s2) = (format!("{:?}", w.lt(&l1)), format!("{:?}", w.lt(&l2)));
                let fwd = goals.iter().any(|(x, y)| *x == s1 && *y == s2);
                let bwd = goals.iter().any(|(x, y)| *x == s2 && *y == s1);
                o14.bump("lifetime_pairs_checked");
                if !(fwd && bwd) {
                    o14.fail("missing-lifetime-obligation", show(a, b, format!("lifetimes {} and {} are related invariantly but the returned obligations are {:?}", s1, s2, goals)));
                }
            }
        }
        if w.bind.len() > bound_before {
            o14.nontrivial.push(hash_of(&(format!("{:?}", case), si, "bind")));
            if o14.sample.is_none() {
                o14.sample = Some(json!({"variables": format!("{:?}", case.vars), "pair": format!("{:?} ~ {:?}", a, b), "state_after": after_dbg}));
            }
        }
        // covariant relation of lifetime-free pairs must end in the same state once the returned
        // Subtype goals have been re-related
        if !has_ref(a) && !has_ref(b) && si == 0 {
            let mut wc = World::new(&case.vars, &case.lts);
            let mut pending: Vec<(Ty<_>, Ty<_>)> = vec![(wc.ty(a), wc.ty(b))];
            let mut ok = true;
            let mut rounds = 0;
            while let Some((x, y)) = pending.pop() {
                rounds += 1;
                if rounds > 50 {
                    ok = false;
                    break;
                }
                // the pair itself is related covariantly (this runs the generalisation step); the Subtype goals it leaves
                // behind are between lifetime-free types, where subtyping is equality, and are closed invariantly (a
                // covariant relate of two unbound variables would only hand the same goal back)
                let variance = if rounds == 1 { Variance::Covariant } else { Variance::Invariant };
                match crate::drive::catch(|| wc.table.relate(I, &db, &env, variance, &x, &y)) {
                    Ok(Ok(r)) => {
                        if rounds == 1 {
                            // universe soundness of the intermediate state (the Subtype goals are still open, a caller may
                            // unify other things first): no variable may be bound to a value that mentions a variable of
                            // a higher universe than its own
                            let (dbg, tys, kinds) = wc.chalk_state();
                            for (v, ty) in tys.iter().enumerate().take(case.vars.len()) {
                                let mut cvs = vec![];
                                collect_cvars(ty, &mut cvs);
                                if matches!(ty, MTy::CVar(_)) {
                                    continue; // unbound (or an alias of another variable: its class keeps the minimum)
                                }
                                if let Some(bad) = cvs.iter().find(|c| kinds[**c].0 == Kind::General && kinds[**c].1 > case.vars[v].1) {
                                    o14.fail("covariant-binds-variable-to-higher-universe", show(a, b, format!("after relate(Covariant): variable #{} of universe U{} is bound to a value mentioning residual variable ^{} of universe U{}\nraw: {}", v, case.vars[v].1, bad, kinds[*bad].1, dbg)));
                                    break;
                                }
                            }
                        }
                        for g in r.goals {
                            if let GoalData::SubtypeGoal(s) = g.goal.data(I) {
                                pending.push((s.a.clone(), s.b.clone()));
                            }
                        }
                    }
                    Ok(Err(_)) => {
                        o14.fail("covariant-fails-but-invariant-succeeds", show(a, b, "lifetime-free pair: relate(Covariant) fails although relate(Invariant) succeeds".into()));
                        ok = false;
                        break;
                    }
                    Err(m) => {
                        o14.fail(format!("panic-in-relate:{}", m), show(a, b, format!("panic in covariant relate: {}", m)));
                        ok = false;
                        break;
                    }
                }
            }
            if ok {
                let (_, ctys2, ckinds2) = wc.chalk_state();
                let (cn2, cmap2) = renumber(&ctys2);
                if cn2 != cnorm {
                    o14.fail("covariant-state-differs", show(a, b, format!("lifetime-free pair: state after covariant relate {:?} differs from invariant {:?}", cn2, cnorm)));
                } else {
                    // ... including kinds and universes of the residual variables (the generalisation step of a
                    // non-invariant relate creates fresh variables; they must live where the invariant result puts them)
                    for (i, (c2, c1)) in cmap2.iter().zip(&cmap).enumerate() {
                        let ((k2, u2), (k1, u1)) = (ckinds2[c2.1], ckinds[c1.1]);
                        if k1 == Kind::General && (k2 != k1 || u2 != u1) {
                            o14.fail("covariant-residual-variable-differs", show(a, b, format!("lifetime-free pair, residual variable #{}: {:?} in U{} after covariant relate, {:?} in U{} after invariant relate", i, k2, u2, k1, u1)));
                            break;
                        }
                    }
                }
                o14.bump("covariant_checked");
            }
        }
    }
    // C15 over higher-ranked types, which the mirror AST does not have: a `for<'a> fn(&'a X) -> Y` against a plain
    // `fn(&'static X) -> Z` opens a universe inside relate without creating a variable. Only the history-free invariants are
    // checked here (no reference unifier): a failing relate leaves the table — canonical state of all variables *and* the
    // next universe / next variable it would hand out — as it was, in both argument orders and under both variances.
    {
        let h = hash_of(&format!("{:?}", case));
        let wp = World::new(&case.vars, &case.lts);
        let leaf = |k: u64| -> Ty<ChalkIr> {
            match k % 5 {
                0 => TyKind::Scalar(Scalar::Int(IntTy::I32)).intern(I),
                1 => TyKind::Scalar(Scalar::Uint(UintTy::U32)).intern(I),
                2 => TyKind::Str.intern(I),
                3 => TyKind::Never.intern(I),
                _ => wp.ty_vars.first().map(|v| v.0.clone()).unwrap_or_else(|| TyKind::Never.intern(I)),
            }
        };
        let fnptr = |binders: usize, args: Vec<Ty<ChalkIr>>| -> Ty<ChalkIr> {
            TyKind::Function(FnPointer { num_binders: binders, sig: FnSig { abi: chalk_integration::interner::ChalkFnAbi::Rust, safety: Safety::Safe, variadic: false }, substitution: FnSubst(Substitution::from_iter(I, args)) }).intern(I)
        };
        let observe = |t: &InferenceTable<ChalkIr>| -> String {
            let all: Vec<GenericArg<ChalkIr>> = wp.ty_vars.iter().map(|v| v.0.clone().cast(I)).chain(wp.lt_vars.iter().map(|l| l.clone().cast(I))).collect();
            let mut t2 = t.clone();
            let c = t2.canonicalize(I, Substitution::from_iter(I, all)).quantified;
            let next_universe = t2.new_universe();
            let next_var = format!("{:?}", t2.new_variable(UniverseIndex::root()));
            format!("{:?} | next universe {:?} | next variable {}", c, next_universe, next_var)
        };
        for probe in 0..2u32 {
            let bits = h >> (probe * 12);
            let (x, y, z) = (leaf(bits), leaf(bits >> 3), leaf(bits >> 6));
            let bound = LifetimeData::BoundVar(BoundVar::new(DebruijnIndex::INNERMOST, 0)).intern(I);
            let hr = fnptr(1, vec![TyKind::Ref(Mutability::Not, bound, x.clone().shifted_in(I)).intern(I), y.clone().shifted_in(I)]);
            let plain = fnptr(0, vec![TyKind::Ref(Mutability::Not, LifetimeData::Static.intern(I), x.clone()).intern(I), z.clone()]);
            for (a, b, dir) in [(&hr, &plain, "higher-ranked vs plain"), (&plain, &hr, "plain vs higher-ranked")] {
                for variance in [Variance::Invariant, Variance::Covariant] {
                    let before = observe(&wp.table);
                    let mut t = wp.table.clone();
                    match crate::drive::catch(|| t.relate(I, &db, &env, variance, a, b).is_ok()) {
                        Ok(false) => {
                            let after = observe(&t);
                            o15.evals += 1;
                            if after != before {
                                o15.fail("state-changed-after-failure:higher-ranked", format!("relate({:?}, {}) of {:?} and {:?} fails but changes the table\nstate before: {}\nstate after:  {}", variance, dir, a, b, before, after));
                            } else {
                                o15.bump("higher_ranked_failing_relate_checked");
                                o15.nontrivial.push(hash_of(&(format!("{:?}{:?}", a, b), dir, format!("{:?}", variance))));
                            }
                        }
                        Ok(true) => o15.bump("higher_ranked_relate_succeeds"),
                        Err(m) => o15.fail(format!("panic-in-relate:{}", m), format!("panic relating {:?} and {:?}: {}", a, b, m)),
                    }
                }
            }
        }
    }
    (o14, o15)
}

fn collect_cvars(t: &MTy, out: &mut Vec<usize>) {
    match t {
        MTy::CVar(i) => out.push(*i),
        MTy::Adt(_, a) | MTy::Tuple(a) => a.iter().for_each(|x| collect_cvars(x, out)),
        MTy::Slice(x) | MTy::Ref(_, _, x) | MTy::Raw(_, x) => collect_cvars(x, out),
        _ => {}
    }
}

pub struct C14;
pub struct C15;

impl Property for C14 {
    type Case = UCase;
    fn id(&self) -> &'static str {
        "C14"
    }
    fn rule(&self) -> String {
        "case = an InferenceTable history: 2-5 type variables (general / integer / float kinds) and 2 lifetime variables created in chosen universes (3 universes), then 1-4 relate(Invariant, a, b) calls on mirror types of depth <= 4 (ADTs, tuples, slices, references with 'static / placeholder / variable lifetimes, raw pointers, scalars, str, !, placeholders of several universes); 60% of the pairs are two partial instantiations of a common term. Oracle: an independent Robinson unifier with occurs check, universe visibility and promotion, and kinded variables on the lifetime-erased mirror: chalk succeeds iff it does; on success the canonical form of ALL variables equals the reference MGU's (same sharing, kinds, residual universes of general variables); differing non-variable lifetimes at aligned positions are covered by outlives obligations in both directions; for lifetime-free first pairs relate(Covariant) with its Subtype goals re-related reaches the same state. Non-trivial = relate that binds >=1 variable, or fails; distinct by hash of (history, step).".into()
    }
    fn assumptions(&self) -> Vec<String> {
        vec!["no TyKind::Error (documented to unify with anything); ADT variances all invariant; a general variable unified with an int/float variable may keep the latter's universe".into()]
    }
    fn cases_per_shard(&self, tier: Tier) -> u32 {
        tier.pick(3000, 60000)
    }
    fn tape_len(&self, _tier: Tier) -> usize {
        300
    }
    fn decode(&self, t: &mut Tape, _tier: Tier) -> UCase {
        decode_ucase(t)
    }
    fn describe(&self, c: &UCase) -> Value {
        json!({"variables(kind,universe)": format!("{:?}", c.vars), "lifetime_variable_universes": c.lts, "relate_calls": c.steps.iter().map(|(a, b)| format!("{:?} ~ {:?}", a, b)).collect::<Vec<_>>()})
    }
    fn shrink(&self, c: &UCase) -> Vec<UCase> {
        shrink_ucase(c)
    }
    fn run(&self, case: &UCase, _tier: Tier) -> CaseOut {
        run_history(case).0
    }
}

impl Property for C15 {
    type Case = UCase;
    fn id(&self) -> &'static str {
        "C15"
    }
    fn rule(&self) -> String {
        "case = the same generated InferenceTable histories as C14 (successful and failing relate calls interleaved). Oracle: observable state = canonical form of the tuple of all variables created so far (union classes, values, kinds, universes) + variable counts; the state before a failing relate equals the state after it; relate(a,b) succeeds iff relate(b,a) succeeds (on clones). Non-trivial = failing attempt during which the reference unifier had already bound a variable before failing (e.g. (?0,?0) vs (i32,u32)); distinct by hash of (history, step).".into()
    }
    fn assumptions(&self) -> Vec<String> {
        vec!["state is observed through canonicalization of all variables on a clone of the table".into()]
    }
    fn cases_per_shard(&self, tier: Tier) -> u32 {
        tier.pick(3000, 60000)
    }
    fn tape_len(&self, _tier: Tier) -> usize {
        300
    }
    fn decode(&self, t: &mut Tape, _tier: Tier) -> UCase {
        decode_ucase(t)
    }
    fn describe(&self, c: &UCase) -> Value {
        C14.describe(c)
    }
    fn shrink(&self, c: &UCase) -> Vec<UCase> {
        shrink_ucase(c)
    }
    fn run(&self, case: &UCase, _tier: Tier) -> CaseOut {
        run_history(case).1
    }
}
