//! C27 — in-place folding is memory-safe at every failure point (drop ledger + allocation accounting).
use crate::runner::*;
use crate::tape::Tape;
use chalk_integration::interner::ChalkIr;
use chalk_ir::fold::verif_in_place::{fallible_map_box, fallible_map_vec};
use chalk_ir::fold::{FallibleTypeFolder, TypeFoldable};
use chalk_ir::*;
use serde::{Deserialize, Serialize};
use serde_json::{json, Value};
use std::cell::{Cell, RefCell};

pub struct C27;

thread_local! {
    /// (type tag, id) of every element dropped
    static LEDGER: RefCell<Vec<(u8, u64)>> = RefCell::new(Vec::new());
    /// live heap bytes of this thread, maintained by the counting allocator of the check binary
    pub static LIVE_BYTES: Cell<isize> = const { Cell::new(0) };
    /// while set, the allocator of the check binary records the layout of every allocation of this thread ...
    pub static ALLOC_TRACK: Cell<bool> = const { Cell::new(false) };
    /// ... in this table (pointer, size, align; pointer 0 = free slot) ...
    pub static ALLOC_TABLE: RefCell<[(usize, usize, usize); 1024]> = const { RefCell::new([(0, 0, 0); 1024]) };
    /// ... and the first deallocation / reallocation whose layout differs from the recorded one: (alloc size, alloc align,
    /// free size, free align)
    pub static ALLOC_MISMATCH: Cell<(usize, usize, usize, usize)> = const { Cell::new((0, 0, 0, 0)) };
}

/// called by the global allocator of the check binary (no allocation may happen in here)
pub fn track_alloc(p: usize, size: usize, align: usize) {
    let on = ALLOC_TRACK.try_with(|t| t.get()).unwrap_or(false);
    if !on || p == 0 {
        return;
    }
    let _ = ALLOC_TABLE.try_with(|t| {
        if let Ok(mut t) = t.try_borrow_mut() {
            let n = t.len();
            let start = (p >> 4) % n;
            for k in 0..n {
                let i = (start + k) % n;
                if t[i].0 == 0 {
                    t[i] = (p, size, align);
                    return;
                }
            }
        }
    });
}

pub fn track_dealloc(p: usize, size: usize, align: usize) {
    let on = ALLOC_TRACK.try_with(|t| t.get()).unwrap_or(false);
    if !on {
        return;
    }
    let _ = ALLOC_TABLE.try_with(|t| {
        if let Ok(mut t) = t.try_borrow_mut() {
            let n = t.len();
            let start = (p >> 4) % n;
            for k in 0..n {
                let i = (start + k) % n;
                if t[i].0 == p {
                    if (t[i].1, t[i].2) != (size, align) {
                        let _ = ALLOC_MISMATCH.try_with(|m| {
                            if m.get() == (0, 0, 0, 0) {
                                m.set((t[i].1, t[i].2, size, align));
                            }
                        });
                    }
                    t[i] = (0, 0, 0);
                    return;
                }
            }
        }
    });
}

fn track_begin() {
    ALLOC_TABLE.with(|t| *t.borrow_mut() = [(0, 0, 0); 1024]);
    ALLOC_MISMATCH.with(|m| m.set((0, 0, 0, 0)));
    ALLOC_TRACK.with(|t| t.set(true));
}

fn track_end() -> Option<String> {
    ALLOC_TRACK.with(|t| t.set(false));
    let m = ALLOC_MISMATCH.with(|m| m.get());
    if m != (0, 0, 0, 0) {
        Some(format!("allocator layout: memory allocated as (size {}, align {}) was freed as (size {}, align {})", m.0, m.1, m.2, m.3))
    } else {
        None
    }
}

fn ledger_take() -> Vec<(u8, u64)> {
    LEDGER.with(|l| std::mem::take(&mut *l.borrow_mut()))
}
fn live() -> isize {
    LIVE_BYTES.with(|c| c.get())
}

macro_rules! tracked {
    ($name:ident, $tag:expr, $repr:ty, $mk:expr, $id:expr) => {
        #[derive(Debug)]
        pub struct $name(pub $repr);
        impl $name {
            #[allow(clippy::redundant_closure_call)]
            fn new(id: u64) -> Self {
                $name(($mk)(id))
            }
            #[allow(clippy::redundant_closure_call)]
            fn id(&self) -> u64 {
                ($id)(&self.0)
            }
        }
        impl Drop for $name {
            fn drop(&mut self) {
                let id = self.id();
                LEDGER.with(|l| l.borrow_mut().push(($tag, id)));
            }
        }
    };
}

tracked!(A, 1, u64, |i: u64| i, |r: &u64| *r);
tracked!(B, 2, u64, |i: u64| i ^ 0, |r: &u64| *r);
tracked!(Big, 3, [u64; 2], |i: u64| [i, !i], |r: &[u64; 2]| r[0]);
tracked!(Bytes, 4, [u8; 8], |i: u64| i.to_le_bytes(), |r: &[u8; 8]| u64::from_le_bytes(*r));
tracked!(Small, 5, u8, |i: u64| i as u8, |r: &u8| *r as u64);
tracked!(Z1, 6, (), |_i: u64| (), |_r: &()| 0u64);
tracked!(Z2, 7, (), |_i: u64| (), |_r: &()| 0u64);
/// boxed payload: a leak of an element leaks heap memory, a double drop is a double free
tracked!(Heap, 8, Box<u64>, |i: u64| Box::new(i), |r: &Box<u64>| **r);
tracked!(Heap2, 9, Box<u64>, |i: u64| Box::new(i), |r: &Box<u64>| **r);

/// same size, very different alignment: buffers must not be reused between these two
tracked!(Bytes64, 10, [u8; 64], |i: u64| { let mut b = [0u8; 64]; b[..8].copy_from_slice(&i.to_le_bytes()); b }, |r: &[u8; 64]| u64::from_le_bytes([r[0], r[1], r[2], r[3], r[4], r[5], r[6], r[7]]));
#[derive(Debug)]
#[repr(align(64))]
pub struct OverRepr(pub [u8; 64]);
tracked!(Over, 11, OverRepr, |i: u64| { let mut b = [0u8; 64]; b[..8].copy_from_slice(&i.to_le_bytes()); OverRepr(b) }, |r: &OverRepr| u64::from_le_bytes([r.0[0], r.0[1], r.0[2], r.0[3], r.0[4], r.0[5], r.0[6], r.0[7]]));

#[derive(Clone, Copy, Debug, PartialEq, Eq, Serialize, Deserialize)]
pub enum Mode {
    Ok,
    Err,
    Panic,
}

#[derive(Clone, Debug, Serialize, Deserialize)]
pub struct Case {
    /// 0 A->B (same layout), 1 A->Big (size differs), 2 Bytes->A (alignment differs), 3 Small->A, 4 Z1->Z2, 5 Z1->A, 6 Heap->Heap2 (same layout, owning), 7 box A->B, 8 box A->Big, 9 box Heap->Heap2, 10 Vec<Tracked>: TypeFoldable, 11 Box<Tracked>: TypeFoldable
    pub pair: u8,
    pub len: usize,
    pub fail_at: Option<usize>,
    pub mode: Mode,
}

const PAIR_NAMES: [&str; 14] = ["vec A(u64)->B(u64) same layout", "vec A(u64)->Big([u64;2]) size differs", "vec Bytes([u8;8])->A(u64) alignment differs", "vec Small(u8)->A(u64)", "vec ZST->ZST", "vec ZST->A(u64)", "vec Heap(Box)->Heap2(Box) same layout, owning", "box A->B same layout", "box A->Big", "box Heap->Heap2", "Vec<T>: TypeFoldable (public route)", "Box<T>: TypeFoldable (public route)", "vec [u8;64] -> align(64) [u8;64] (same size, alignment 1 -> 64)", "vec align(64) [u8;64] -> [u8;64] (same size, alignment 64 -> 1)"];

/// expected drop multiset / order independent check. Returns problems.
fn check_ledger(events: &[(u8, u64)], expected: &[(u8, u64)], zst: bool) -> Option<String> {
    let mut e: Vec<(u8, u64)> = events.to_vec();
    let mut x: Vec<(u8, u64)> = expected.to_vec();
    e.sort();
    x.sort();
    if e != x {
        let what = if zst { "drop counts per type" } else { "dropped (type tag, id) multiset" };
        Some(format!("{}: got {:?}, expected {:?}", what, e, x))
    } else {
        None
    }
}

fn run_vec<T, U>(len: usize, fail_at: Option<usize>, mode: Mode, tt: u8, tu: u8, mk: impl Fn(u64) -> T, conv: impl Fn(T) -> U, uid: impl Fn(&U) -> u64, zst: bool) -> Vec<String> {
    let mut problems = vec![];
    let base = live();
    let _ = ledger_take();
    track_begin();
    {
        let input: Vec<T> = (0..len as u64).map(&mk).collect();
        let calls = Cell::new(0usize);
        let r = std::panic::catch_unwind(std::panic::AssertUnwindSafe(|| {
            fallible_map_vec(input, |t: T| -> Result<U, ()> {
                let k = calls.get();
                calls.set(k + 1);
                if Some(k) == fail_at {
                    match mode {
                        Mode::Err => return Err(()), // `t` dropped here, by the closure
                        Mode::Panic => panic!("INJECTED fold panic"),
                        Mode::Ok => {}
                    }
                }
                Ok(conv(t))
            })
        }));
        let failing = fail_at.filter(|p| *p < len && mode != Mode::Ok);
        match (&r, failing) {
            (Ok(Ok(out)), None) => {
                let during = ledger_take();
                if !during.is_empty() {
                    problems.push(format!("success but elements were dropped: {:?}", during));
                }
                if std::mem::size_of::<U>() > 0 && out.capacity() > 0 && (out.as_ptr() as usize) % std::mem::align_of::<U>() != 0 {
                    problems.push(format!("allocator layout: the output buffer {:p} is not aligned to {} bytes", out.as_ptr(), std::mem::align_of::<U>()));
                }
                if out.len() != len {
                    problems.push(format!("output has {} elements, input had {}", out.len(), len));
                }
                if !zst {
                    let ids: Vec<u64> = out.iter().map(&uid).collect();
                    if ids != (0..len as u64).collect::<Vec<_>>() {
                        problems.push(format!("output ids {:?}", ids));
                    }
                }
            }
            (Ok(Err(())), Some(_)) if mode == Mode::Err => {}
            (Err(_), Some(_)) if mode == Mode::Panic => {}
            _ => problems.push(format!("unexpected outcome: result is {} for fail_at={:?} mode={:?}", match &r { Ok(Ok(_)) => "Ok", Ok(Err(_)) => "Err", Err(_) => "panic" }, fail_at, mode)),
        }
        if let Some(p) = failing {
            let events = ledger_take();
            let mut expected: Vec<(u8, u64)> = vec![];
            for i in 0..len {
                let id = if zst { 0 } else { i as u64 };
                if i < p {
                    expected.push((tu, id));
                } else {
                    expected.push((tt, id));
                }
            }
            if let Some(pb) = check_ledger(&events, &expected, zst) {
                problems.push(pb);
            }
        } else {
            // drop the output now and account for it
            drop(r);
            let events = ledger_take();
            let expected: Vec<(u8, u64)> = (0..len).map(|i| (tu, if zst { 0 } else { i as u64 })).collect();
            if let Some(pb) = check_ledger(&events, &expected, zst) {
                problems.push(format!("after dropping the output: {}", pb));
            }
        }
    }
    let _ = ledger_take();
    if let Some(pb) = track_end() {
        problems.push(pb);
    }
    let after = live();
    if after != base {
        problems.push(format!("heap accounting: {} bytes live before, {} after (leak or double free)", base, after));
    }
    problems
}

fn run_box<T, U>(fail: bool, mode: Mode, tt: u8, tu: u8, mk: impl Fn(u64) -> T, conv: impl Fn(T) -> U, uid: impl Fn(&U) -> u64) -> Vec<String> {
    let mut problems = vec![];
    let base = live();
    let _ = ledger_take();
    {
        let input = Box::new(mk(7));
        let r = std::panic::catch_unwind(std::panic::AssertUnwindSafe(|| {
            fallible_map_box(input, |t: T| -> Result<U, ()> {
                if fail {
                    match mode {
                        Mode::Err => return Err(()),
                        Mode::Panic => panic!("INJECTED fold panic"),
                        Mode::Ok => {}
                    }
                }
                Ok(conv(t))
            })
        }));
        let failing = fail && mode != Mode::Ok;
        match (&r, failing) {
            (Ok(Ok(b)), false) => {
                if !ledger_take().is_empty() {
                    problems.push("success but the element was dropped".into());
                }
                if uid(b) != 7 {
                    problems.push(format!("output id {}", uid(b)));
                }
            }
            (Ok(Err(())), true) if mode == Mode::Err => {}
            (Err(_), true) if mode == Mode::Panic => {}
            _ => problems.push("unexpected outcome".into()),
        }
        if failing {
            if let Some(pb) = check_ledger(&ledger_take(), &[(tt, 7)], false) {
                problems.push(pb);
            }
        } else {
            drop(r);
            if let Some(pb) = check_ledger(&ledger_take(), &[(tu, 7)], false) {
                problems.push(format!("after dropping the output: {}", pb));
            }
        }
    }
    let after = live();
    if after != base {
        problems.push(format!("heap accounting: {} bytes live before, {} after (leak or double free)", base, after));
    }
    problems
}

// ---- public route: Vec<T> / Box<T> : TypeFoldable with a drop-tracking element

#[derive(Debug)]
pub struct Elem(Heap);
impl TypeFoldable<ChalkIr> for Elem {
    fn try_fold_with<E>(self, folder: &mut dyn FallibleTypeFolder<ChalkIr, Error = E>, outer_binder: DebruijnIndex) -> Result<Self, E> {
        // the folder decides (it fails or panics at the k-th type it sees)
        let probe: Ty<ChalkIr> = TyKind::Never.intern(ChalkIr);
        folder.try_fold_ty(probe, outer_binder)?;
        Ok(self)
    }
}

struct FailingFolder {
    calls: usize,
    fail_at: Option<usize>,
    mode: Mode,
}
impl FallibleTypeFolder<ChalkIr> for FailingFolder {
    type Error = ();
    fn as_dyn(&mut self) -> &mut dyn FallibleTypeFolder<ChalkIr, Error = ()> {
        self
    }
    fn try_fold_ty(&mut self, ty: Ty<ChalkIr>, _outer: DebruijnIndex) -> Result<Ty<ChalkIr>, ()> {
        let k = self.calls;
        self.calls += 1;
        if Some(k) == self.fail_at {
            match self.mode {
                Mode::Err => return Err(()),
                Mode::Panic => panic!("INJECTED fold panic"),
                Mode::Ok => {}
            }
        }
        Ok(ty)
    }
    fn interner(&self) -> ChalkIr {
        ChalkIr
    }
}

fn run_public(len: usize, fail_at: Option<usize>, mode: Mode, boxed: bool) -> Vec<String> {
    let mut problems = vec![];
    // warm up the interner etc. so that one-time allocations do not count
    let _ = TyKind::<ChalkIr>::Never.intern(ChalkIr);
    let base = live();
    let _ = ledger_take();
    {
        let mut folder = FailingFolder { calls: 0, fail_at, mode };
        let failing = fail_at.filter(|p| *p < len && mode != Mode::Ok);
        let r: std::thread::Result<Result<usize, ()>> = if boxed {
            let input = Box::new(Elem(Heap::new(0)));
            std::panic::catch_unwind(std::panic::AssertUnwindSafe(|| input.try_fold_with(&mut folder, DebruijnIndex::INNERMOST).map(|b| {
                let n = 1;
                drop(b);
                n
            })))
        } else {
            let input: Vec<Elem> = (0..len as u64).map(|i| Elem(Heap::new(i))).collect();
            std::panic::catch_unwind(std::panic::AssertUnwindSafe(|| input.try_fold_with(&mut folder, DebruijnIndex::INNERMOST).map(|v| {
                let n = v.len();
                drop(v);
                n
            })))
        };
        match (&r, failing) {
            (Ok(Ok(n)), None) => {
                if *n != len {
                    problems.push(format!("output has {} elements, input had {}", n, len));
                }
            }
            (Ok(Err(())), Some(_)) if mode == Mode::Err => {}
            (Err(_), Some(_)) if mode == Mode::Panic => {}
            _ => problems.push("unexpected outcome".into()),
        }
        let events = ledger_take();
        let expected: Vec<(u8, u64)> = (0..len as u64).map(|i| (8u8, i)).collect();
        if let Some(pb) = check_ledger(&events, &expected, false) {
            problems.push(pb);
        }
    }
    let after = live();
    if after != base {
        problems.push(format!("heap accounting: {} bytes live before, {} after (leak or double free)", base, after));
    }
    problems
}

pub fn run_case(c: &Case) -> Vec<String> {
    let (len, f, m) = (c.len, c.fail_at, c.mode);
    let conv_id = |i: u64| i;
    let _ = conv_id;
    match c.pair {
        0 => run_vec(len, f, m, 1, 2, A::new, |t: A| { let id = t.id(); std::mem::forget(t); B::new(id) }, |u: &B| u.id(), false),
        1 => run_vec(len, f, m, 1, 3, A::new, |t: A| { let id = t.id(); std::mem::forget(t); Big::new(id) }, |u: &Big| u.id(), false),
        2 => run_vec(len, f, m, 4, 1, Bytes::new, |t: Bytes| { let id = t.id(); std::mem::forget(t); A::new(id) }, |u: &A| u.id(), false),
        3 => run_vec(len.min(250), f, m, 5, 1, Small::new, |t: Small| { let id = t.id(); std::mem::forget(t); A::new(id) }, |u: &A| u.id(), false),
        4 => run_vec(len, f, m, 6, 7, Z1::new, |t: Z1| { std::mem::forget(t); Z2::new(0) }, |_u: &Z2| 0, true),
        5 => run_vec(len, f, m, 6, 1, Z1::new, |t: Z1| { std::mem::forget(t); A::new(0) }, |_u: &A| 0, true),
        6 => run_vec(len, f, m, 8, 9, Heap::new, |t: Heap| { let id = t.id(); drop_silently(t); Heap2::new(id) }, |u: &Heap2| u.id(), false),
        7 => run_box(f.is_some(), m, 1, 2, A::new, |t: A| { let id = t.id(); std::mem::forget(t); B::new(id) }, |u: &B| u.id()),
        8 => run_box(f.is_some(), m, 1, 3, A::new, |t: A| { let id = t.id(); std::mem::forget(t); Big::new(id) }, |u: &Big| u.id()),
        9 => run_box(f.is_some(), m, 8, 9, Heap::new, |t: Heap| { let id = t.id(); drop_silently(t); Heap2::new(id) }, |u: &Heap2| u.id()),
        12 => run_vec(len, f, m, 10, 11, Bytes64::new, |t: Bytes64| { let id = t.id(); std::mem::forget(t); Over::new(id) }, |u: &Over| u.id(), false),
        13 => run_vec(len, f, m, 11, 10, Over::new, |t: Over| { let id = t.id(); std::mem::forget(t); Bytes64::new(id) }, |u: &Bytes64| u.id(), false),
        10 => run_public(len, f, m, false),
        _ => run_public(1, f.map(|_| 0), m, true),
    }
}

/// consume a Heap element without a ledger entry (its Box is freed, its id lives on in the output)
fn drop_silently(t: Heap) {
    let b = unsafe { std::ptr::read(&t.0) };
    std::mem::forget(t);
    drop(b);
}

fn sig_of(problem: &str) -> &'static str {
    if problem.contains("allocator layout") {
        "buffer-reused-across-layouts"
    } else if problem.contains("heap accounting") {
        "leak-or-double-free"
    } else if problem.contains("success but") {
        "dropped-on-success"
    } else if problem.contains("multiset") || problem.contains("drop counts") {
        "wrong-drops"
    } else if problem.contains("output") {
        "wrong-output"
    } else {
        "unexpected-outcome"
    }
}

thread_local! {
    static WARM: Cell<bool> = const { Cell::new(false) };
}

fn judge(c: &Case, out: &mut CaseOut) {
    // the panic hook remembers the panic location in a thread-local String: let it reach its final
    // size before heap balances are measured
    if !WARM.with(|w| w.replace(true)) {
        let _ = std::panic::catch_unwind(|| panic!("INJECTED fold panic (warm-up)"));
    }
    out.evals += 1;
    let problems = match crate::drive::catch(|| run_case(c)) {
        Ok(p) => p,
        Err(m) => vec![format!("harness-level panic: {}", m)],
    };
    for p in &problems {
        out.fail(format!("{}:{}", sig_of(p), if c.pair < 7 || c.pair == 10 { "vec" } else { "box" }), format!("{} | len {} fail_at {:?} mode {:?}: {}", PAIR_NAMES[c.pair as usize], c.len, c.fail_at, c.mode, p));
    }
    let inside = matches!(c.fail_at, Some(p) if p > 0 && p + 1 < c.len) && c.mode != Mode::Ok && ![4u8, 5].contains(&c.pair);
    if inside && problems.is_empty() {
        out.nontrivial.push(hash_of(&(c.pair, c.len, c.fail_at, c.mode as u8)));
        if out.sample.is_none() || c.len == 5 {
            out.sample = Some(json!({"elements": PAIR_NAMES[c.pair as usize], "len": c.len, "fail_at": c.fail_at, "mode": format!("{:?}", c.mode), "result": "every element dropped exactly once, heap balance restored"}));
        }
    }
}

impl Property for C27 {
    type Case = Case;
    fn id(&self) -> &'static str {
        "C27"
    }
    fn level(&self) -> &'static str {
        "fault_enumeration"
    }
    fn exhaustive(&self, _tier: Tier) -> bool {
        true
    }
    fn rule(&self) -> String {
        "fixed part (exhaustive): vector length 0..=12 x failing position 0..len or none x mode {ok, Err return, panic} x element pairs {same layout, size differs, alignment differs (8-byte and 64-byte over-aligned, both directions), u8->u64, ZST->ZST, ZST->non-ZST, owning Box payload} for fallible_map_vec; box x {fail, no fail} x mode x {same layout, size differs, owning}; plus the public route Vec<T>/Box<T>: TypeFoldable with a drop-tracking element and a folder that fails at the k-th call. Random part: the same with lengths up to 200. Oracle: a drop ledger (on failure the mapped prefix is dropped as U, the element handed to the closure by the closure, the unmapped suffix as T — each exactly once; on success nothing is dropped and the output holds all ids in order) + a counting allocator (live heap bytes return to the baseline; elements owning a Box turn a leak into a byte imbalance and a double drop into a double free) that also records the layout of every allocation made during a case (memory must be freed with the layout it was allocated with, and the output buffer must be aligned for its element type — so a buffer reused between types of different layout is seen). Non-trivial = failure strictly inside (0 < pos < len-1) with non-ZST elements; distinct by (pair, len, position, mode).".into()
    }
    fn assumptions(&self) -> Vec<String> {
        vec!["the private in-place functions are reached through the cfg(chalk_verif) hook chalk_ir::fold::verif_in_place; reads of freed/uninitialised memory are only visible through their effects (ledger ids, allocator imbalance, crash) unless the thorough tier's Miri run is used".into()]
    }
    fn cases_per_shard(&self, tier: Tier) -> u32 {
        tier.pick(300, 5000)
    }
    fn tape_len(&self, _tier: Tier) -> usize {
        16
    }
    fn decode(&self, t: &mut Tape, _tier: Tier) -> Case {
        let pair = t.choose(14) as u8;
        let len = 13 + t.choose(188);
        let mode = [Mode::Ok, Mode::Err, Mode::Panic][t.choose(3)];
        let fail_at = if t.chance(85) { Some(t.choose(len)) } else { None };
        Case { pair, len, fail_at, mode }
    }
    fn describe(&self, c: &Case) -> Value {
        json!({"elements": PAIR_NAMES[c.pair as usize], "len": c.len, "fail_at": c.fail_at, "mode": format!("{:?}", c.mode)})
    }
    fn shrink(&self, c: &Case) -> Vec<Case> {
        let mut out = vec![];
        if c.len > 1 {
            out.push(Case { len: c.len / 2, fail_at: c.fail_at.map(|p| p.min(c.len / 2 - if c.len / 2 > 0 { 1 } else { 0 })), ..c.clone() });
            out.push(Case { len: c.len - 1, fail_at: c.fail_at.map(|p| p.min(c.len.saturating_sub(2))), ..c.clone() });
        }
        if let Some(p) = c.fail_at {
            if p > 0 {
                out.push(Case { fail_at: Some(p - 1), ..c.clone() });
                out.push(Case { fail_at: Some(p / 2), ..c.clone() });
            }
        }
        out
    }
    fn run(&self, c: &Case, _tier: Tier) -> CaseOut {
        let mut out = CaseOut::default();
        judge(c, &mut out);
        out
    }
    fn fixed_part(&self, _tier: Tier) -> Option<CaseOut> {
        let mut out = CaseOut::default();
        for pair in 0..14u8 {
            let is_box = matches!(pair, 7 | 8 | 9 | 11);
            let lens: Vec<usize> = if is_box { vec![1] } else { (0..=12).collect() };
            for len in lens {
                let mut positions: Vec<Option<usize>> = (0..len).map(Some).collect();
                positions.push(None);
                for fail_at in positions {
                    for mode in [Mode::Ok, Mode::Err, Mode::Panic] {
                        if fail_at.is_none() && mode != Mode::Ok {
                            continue;
                        }
                        judge(&Case { pair, len, fail_at, mode }, &mut out);
                    }
                }
            }
        }
        out.add("exhaustively_enumerated_cases", out.evals);
        Some(out)
    }
}
