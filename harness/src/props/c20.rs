//! C20 — the orphan check implements the orphan rules.
use crate::drive::*;
use crate::gen::*;
use crate::model::*;
use crate::runner::*;
use crate::tape::Tape;
use chalk_integration::db::ChalkDatabase;
use chalk_integration::query::LoweringDatabase;
use chalk_integration::SolverChoice;
use serde::{Deserialize, Serialize};
use serde_json::{json, Value};

pub struct C20;

#[derive(Clone, Debug, Serialize, Deserialize)]
pub struct Case {
    pub program: Program,
}

// ctor indices of the fixed type universe
const L: usize = 0; // local
const U: usize = 1; // upstream
const LG: usize = 2; // local generic
const UG: usize = 3; // upstream generic
const BX: usize = 4; // upstream fundamental, one parameter
const BX2: usize = 5; // upstream fundamental, two parameters

fn gen_arg(t: &mut Tape, np: usize, depth: usize) -> Ty {
    let leaf = |t: &mut Tape| -> Ty {
        match t.choose(6) {
            0 => Ty::Adt(L, vec![]),
            1 => Ty::Adt(U, vec![]),
            2 => Ty::Bi(Bi::Scalar(t.choose(6) as u8), vec![]),
            3 if np > 0 => Ty::Param(t.choose(np)),
            4 if np > 0 => Ty::Param(t.choose(np)),
            _ => Ty::Bi(Bi::Tuple, vec![]),
        }
    };
    if depth == 0 || t.chance(35) {
        return leaf(t);
    }
    let d = depth - 1;
    match t.choose(6) {
        0 => Ty::Adt(LG, vec![gen_arg(t, np, d)]),
        1 => Ty::Adt(UG, vec![gen_arg(t, np, d)]),
        2 => Ty::Adt(BX, vec![gen_arg(t, np, d)]),
        3 => Ty::Adt(BX2, vec![gen_arg(t, np, d), gen_arg(t, np, d)]),
        4 => {
            let n = 1 + t.choose(2);
            Ty::Bi(Bi::Tuple, (0..n).map(|_| gen_arg(t, np, d)).collect())
        }
        _ => leaf(t),
    }
}

/// `local` in the sense of the property: a local ADT, or a fundamental upstream constructor applied to
/// something local (looking through it)
fn is_local(p: &Program, t: &Ty) -> bool {
    match t {
        Ty::Adt(c, args) => {
            let ct = &p.ctors[*c];
            if !ct.upstream {
                true
            } else if ct.fundamental {
                args.iter().any(|a| is_local(p, a))
            } else {
                false
            }
        }
        _ => false,
    }
}

/// mentions no impl type parameter (scalars and tuples of fully visible types are fully visible)
fn fully_visible(t: &Ty) -> bool {
    !t.has_param()
}

/// the orphan rule as stated in the property
pub fn orphan_ok(p: &Program, im: &ImplDef) -> bool {
    if !p.traits[im.head.tr].upstream {
        return true;
    }
    for (i, a) in im.head.args.iter().enumerate() {
        if is_local(p, a) && im.head.args[..i].iter().all(fully_visible) {
            return true;
        }
    }
    false
}

fn uses_builtin_before_local(p: &Program, im: &ImplDef) -> bool {
    // the recorded finding: a built-in type (scalar / tuple) occurs in an argument *before* the first
    // local one (chalk proves neither IsFullyVisible nor IsUpstream for built-in types)
    let first_local = im.head.args.iter().position(|a| is_local(p, a));
    match first_local {
        Some(i) => im.head.args[..i].iter().any(|a| a.any(&|x| matches!(x, Ty::Bi(..)))),
        None => false,
    }
}

impl Property for C20 {
    type Case = Case;
    fn id(&self) -> &'static str {
        "C20"
    }
    fn rule(&self) -> String {
        "case = a program with one impl of a local or #[upstream] trait with 0-2 type parameters, whose arguments (Self first) are built from a local struct, an upstream struct, local and upstream generic structs, #[fundamental] upstream structs with one and two parameters, scalars, tuples and the impl's own type parameters, nested to depth 2, in all positions. Oracle: the rule as stated in the property, implemented directly (pass iff the trait is local, or some argument is local — looking through fundamental constructors — and every earlier argument mentions no impl type parameter), compared with LoweringDatabase::orphan_check() under both solvers. Non-trivial = upstream trait with >= 2 arguments one of which is a built-in type or an impl parameter; distinct by hash of the program and solver.".into()
    }
    fn assumptions(&self) -> Vec<String> {
        vec!["impl parameters all occur in the impl header".into()]
    }
    fn cases_per_shard(&self, tier: Tier) -> u32 {
        tier.pick(250, 5000)
    }
    fn tape_len(&self, _tier: Tier) -> usize {
        120
    }
    fn decode(&self, t: &mut Tape, _tier: Tier) -> Case {
        let mut p = Program::default();
        let mk = |name: &str, arity: usize, upstream: bool, fundamental: bool| {
            let mut c = new_ctor(name, arity);
            c.upstream = upstream;
            c.fundamental = fundamental;
            c
        };
        p.ctors.push(mk("Local", 0, false, false));
        p.ctors.push(mk("Up", 0, true, false));
        p.ctors.push(mk("LocalG", 1, false, false));
        p.ctors.push(mk("UpG", 1, true, false));
        p.ctors.push(mk("Bx", 1, true, true));
        p.ctors.push(mk("Bx2", 2, true, true));
        let extra = t.choose(3);
        let mut tr = new_trait("Foo", extra, TraitKind::Inductive);
        tr.upstream = !t.chance(15);
        p.traits.push(tr);
        let np = t.choose(3);
        let args: Vec<Ty> = (0..=extra).map(|_| gen_arg(t, np, 2)).collect();
        let mut used = vec![];
        args.iter().for_each(|a| a.collect_params(&mut used));
        let ren: Vec<Ty> = (0..np).map(|i| Ty::Param(used.iter().position(|u| *u == i).unwrap_or(0))).collect();
        let args: Vec<Ty> = args.iter().map(|a| a.subst_params(&ren)).collect();
        p.impls.push(ImplDef { nparams: used.len(), head: TRef { tr: 0, args }, wcs: vec![], positive: true, values: vec![], upstream: false });
        Case { program: p }
    }
    fn describe(&self, c: &Case) -> Value {
        json!({"program": print_program(&c.program)})
    }
    fn shrink(&self, _c: &Case) -> Vec<Case> {
        vec![]
    }
    fn run(&self, case: &Case, _tier: Tier) -> CaseOut {
        let mut out = CaseOut::default();
        let p = &case.program;
        let text = print_program(p);
        let im = &p.impls[0];
        let expected = orphan_ok(p, im);
        for (sname, choice) in [("slg", SolverChoice::slg_default()), ("rec", SolverChoice::recursive_default())] {
            out.evals += 1;
            let (run, _) = guarded(DEFAULT_BUDGET * 4, || {
                let db = ChalkDatabase::with(&text, choice);
                db.program_ir().map_err(|e| format!("lowering: {}", e))?;
                Ok::<bool, String>(match db.orphan_check() {
                    Ok(()) => true,
                    Err(e) => {
                        let m = e.to_string();
                        if !m.contains("orphan") {
                            return Err(format!("unexpected error: {}", m));
                        }
                        false
                    }
                })
            });
            let got = match run {
                Run::Done(Ok(b)) => b,
                Run::Done(Err(e)) => {
                    out.fail(if e.starts_with("lowering") { "lowering/program-rejected".to_string() } else { format!("{}:unexpected-error", sname) }, format!("{}\n{}", e, text));
                    continue;
                }
                Run::Panic(m) => {
                    out.fail(format!("{}:panic:{}", sname, m.chars().take(90).collect::<String>()), format!("[{}] orphan check panicked: {}\n{}", sname, m, text));
                    continue;
                }
                _ => continue,
            };
            out.bump(&format!("{}:{}", if expected { "rule-accepts" } else { "rule-rejects" }, if got { "check-accepts" } else { "check-rejects" }));
            if got != expected {
                let qual = if expected && !got && uses_builtin_before_local(p, im) { ":builtin-type-before-local-type" } else { "" };
                out.fail(
                    format!("{}:{}{}", sname, if expected { "rejects-impl-allowed-by-the-rules" } else { "accepts-impl-forbidden-by-the-rules" }, qual),
                    format!("[{}] the orphan rules {} this impl but orphan_check() {} it\n{}", sname, if expected { "allow" } else { "forbid" }, if got { "accepts" } else { "rejects" }, text),
                );
                continue;
            }
            if p.traits[0].upstream && im.head.args.len() >= 2 && im.head.args.iter().any(|a| a.any(&|x| matches!(x, Ty::Bi(..) | Ty::Param(_)))) {
                out.nontrivial.push(hash_of(&(&text, sname)));
                if out.sample.is_none() {
                    out.sample = Some(json!({"program": text, "solver": sname, "orphan_rules_allow": expected, "orphan_check_accepts": got}));
                }
            }
        }
        out
    }
}
