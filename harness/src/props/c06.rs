//! C06 — hypotheses and implied bounds yield exactly their consequences, and never leak.
use super::common::*;
use crate::drive::*;
use crate::gen::*;
use crate::model::*;
use crate::refsem::*;
use crate::runner::*;
use crate::tape::Tape;
use serde::{Deserialize, Serialize};
use serde_json::{json, Value};

pub struct C06;

#[derive(Clone, Debug, Serialize, Deserialize)]
pub struct Case {
    /// goals 2k = `forall<..> { if (H) { G } }`, 2k+1 = the same `forall<..> { G }` without H
    pub pg: PG,
    pub history: Vec<usize>,
}

fn gen_pair(t: &mut Tape, p: &Program) -> (Goal, Goal) {
    let nv = 1 + t.choose(2);
    let vars: Vec<usize> = (0..nv).collect();
    let scope: Vec<Ty> = vars.iter().map(|v| Ty::QVar(*v)).collect();
    let nh = 1 + t.choose(2);
    let mut hyps = vec![];
    for _ in 0..nh {
        if t.chance(25) {
            // FromEnv(S<T..>) for a struct with where-clauses
            let cands: Vec<usize> = (0..p.ctors.len()).filter(|c| !p.ctors[*c].wcs.is_empty()).collect();
            if !cands.is_empty() {
                let c = cands[t.choose(cands.len())];
                let args = (0..p.ctors[c].arity).map(|_| scope[t.choose(scope.len())].clone()).collect();
                hyps.push(Hyp::FromEnvTy(Ty::Adt(c, args)));
                continue;
            }
        }
        let tr = t.choose(p.traits.len());
        let mut args = vec![scope[t.choose(scope.len())].clone()];
        for _ in 0..p.traits[tr].extra {
            args.push(if t.chance(50) { scope[t.choose(scope.len())].clone() } else { gen_ty(t, p, &scope, 1) });
        }
        hyps.push(Hyp::Holds(TRef { tr, args }));
    }
    // the goal: half of the time a consequence candidate (a trait mentioned in some where-clause), over the same variables
    let tr = t.choose(p.traits.len());
    let self_ty = if t.chance(80) { scope[t.choose(scope.len())].clone() } else { gen_ty(t, p, &scope, 1) };
    let mut args = vec![self_ty];
    for _ in 0..p.traits[tr].extra {
        args.push(if t.chance(50) { scope[t.choose(scope.len())].clone() } else { gen_ty(t, p, &scope, 1) });
    }
    let g = Lit::Holds(TRef { tr, args });
    (Goal { prefix: vec![Prefix::Forall(vars.clone()), Prefix::If(hyps)], body: vec![g.clone()] }, Goal { prefix: vec![Prefix::Forall(vars)], body: vec![g] })
}

const NPAIRS: usize = 3;

impl Property for C06 {
    type Case = Case;
    fn id(&self) -> &'static str {
        "C06"
    }
    fn rule(&self) -> String {
        "case = generated F-env program — supertrait hierarchies with Self bounds and where-clauses on the trait's own parameters (diamonds, cycles), structs with where-clauses, a few impls — with 3 goal pairs (`forall<T..> { if (H) { G } }` with hypotheses `T: Tr`, `T: Tr<U>`, `FromEnv(S<T>)`, and the same `forall<T..> { G }` without H) posed in a generated interleaved order to ONE solver instance per solver. Oracle: (exactness) the reference value of G under the implied-bounds closure of H — a fresh solver must answer Unique iff entailed and 'No possible solution' iff not (closed goals within limits); (no leak) every answer on the shared instance equals the fresh answer, in particular G without H after G with H. Non-trivial = judged goal whose proof needs >= 1 elaboration step (supertrait / struct where-clause), or a hypothesis-free goal posed after its hypothesis-carrying twin on the same instance; distinct by hash.".into()
    }
    fn assumptions(&self) -> Vec<String> {
        vec!["implied-bounds closure as in the book (implied_bounds.md): FromEnv(T: Trait) gives all where-clauses of the trait, FromEnv(S<..>) gives the struct's where-clauses; a truncated (infinite) closure makes non-derivable atoms unknown, never false".into()]
    }
    fn cases_per_shard(&self, tier: Tier) -> u32 {
        tier.pick(300, 6000)
    }
    fn decode(&self, t: &mut Tape, _tier: Tier) -> Case {
        let mut program = gen_program(t, &GenCfg::env());
        // shape knob: the whole hierarchy coinductive (FromEnv must stay inductive even then: a supertrait cycle
        // is not a proof)
        if t.chance(20) {
            for tr in program.traits.iter_mut() {
                tr.kind = TraitKind::Coinductive;
            }
        }
        let mut goals = vec![];
        for _ in 0..NPAIRS {
            let (a, b) = gen_pair(t, &program);
            goals.push(a);
            goals.push(b);
        }
        let len = 4 + t.choose(7);
        let mut history: Vec<usize> = (0..len).map(|_| t.choose(2 * NPAIRS)).collect();
        // make sure at least one "with H, then without H" adjacency exists
        let k = t.choose(NPAIRS);
        history.push(2 * k);
        history.push(2 * k + 1);
        Case { pg: PG { program, goals }, history }
    }
    fn describe(&self, c: &Case) -> Value {
        let mut v = c.pg.describe();
        v["history"] = json!(c.history);
        v
    }
    fn shrink(&self, c: &Case) -> Vec<Case> {
        let mut out = vec![];
        for i in 0..c.history.len() {
            let mut q = c.clone();
            q.history.remove(i);
            out.push(q);
        }
        for p in shrink_program(&c.pg.program) {
            if c.pg.goals.iter().all(|g| goal_traits_ok(g, p.traits.len())) {
                out.push(Case { pg: PG { program: p, goals: c.pg.goals.clone() }, history: c.history.clone() });
            }
        }
        for (i, g) in c.pg.goals.iter().enumerate() {
            for g2 in shrink_goal(g) {
                let mut q = c.clone();
                q.pg.goals[i] = g2;
                out.push(q);
            }
        }
        out
    }
    fn run(&self, case: &Case, _tier: Tier) -> CaseOut {
        let mut out = CaseOut::default();
        let low = match lower_pg(&case.pg, &mut out) {
            Some(l) => l,
            None => return out,
        };
        let names = Names { program: &low.program, model: &case.pg.program };
        let has_params = env_existential(&case.pg.program);
        with_program(&low, || {
            let oracle: Vec<SolutionSets> = case.pg.goals.iter().map(|g| solution_sets(&case.pg.program, g, 2, 10)).collect();
            for sv in Sv::BOTH {
                let mut fresh: Vec<Option<String>> = vec![];
                for (gi, _g) in case.pg.goals.iter().enumerate() {
                    let lg = match &low.goals[gi] {
                        Some(a) => a,
                        None => {
                            fresh.push(None);
                            continue;
                        }
                    };
                    let sets = &oracle[gi];
                    let sol = match solve_judged(&low, lg, sv, &mut out) {
                        Some(s) => s,
                        None => {
                            fresh.push(None);
                            continue;
                        }
                    };
                    let rendered = render(&sol);
                    fresh.push(Some(rendered.clone()));
                    let ans = match names.convert(&lg.peeled, &sol) {
                        Ok(a) => a,
                        Err(_) => continue,
                    };
                    let v = if !sets.s.is_empty() {
                        Tri::True
                    } else if !sets.n.is_empty() {
                        Tri::False
                    } else {
                        Tri::Unknown
                    };
                    let qual = if sets.st.used_env && has_params { ":env-with-trait-params" } else { "" };
                    if let Some((class, msg)) = check_answer(&case.pg.program, &lg.peeled, &ans, sets) {
                        out.fail(format!("{}:{}{}", sv.name(), class, qual), format!("[{}] {}\n{}goal: {}\nanswer: {}", sv.name(), msg, low.text, lg.text, rendered));
                        continue;
                    }
                    let within = v.definite() && !sets.st.incomplete && sets.st.max_size + 2 <= 10 && sets.st.atoms * 3 < 100;
                    if !within {
                        out.bump("outside_limits_or_oracle_unknown(not judged for exactness)");
                        continue;
                    }
                    if matches!(ans, Ans::Ambig | Ans::Definite(..)) {
                        out.fail(format!("{}:closed-goal-ambiguous{}", sv.name(), qual), format!("[{}] goal within limits answered `{}`; under the hypotheses' implied bounds its value is {:?}\n{}goal: {}", sv.name(), rendered, v, low.text, lg.text));
                        continue;
                    }
                    if sets.st.env_elaborated {
                        out.nontrivial.push(hash_of(&(&low.text, &lg.text, sv.name())));
                        out.bump(if v == Tri::True { "entailed_through_elaboration" } else { "not_entailed" });
                        if out.sample.is_none() {
                            out.sample = Some(json!({"program": low.text, "goal": lg.text, "solver": sv.name(), "answer": rendered, "reference_value": format!("{:?}", v)}));
                        }
                    }
                }
                // shared instance: no leak
                let mut solver = sv.choice().into_solver();
                let mut seen_with: Vec<usize> = vec![];
                for (pos, gi) in case.history.iter().enumerate() {
                    let (lg, exp) = match (low.goals.get(*gi).and_then(|x| x.as_ref()), fresh.get(*gi).and_then(|x| x.as_ref())) {
                        (Some(a), Some(b)) => (a, b),
                        _ => continue,
                    };
                    out.evals += 1;
                    let (run, _) = solve_with(&mut *solver, &*low.program, &lg.peeled.goal, DEFAULT_BUDGET);
                    match run {
                        Run::Done(s) => {
                            let got = render(&s);
                            if &got != exp {
                                let leak = if gi % 2 == 1 && seen_with.contains(&(gi - 1)) { "hypothesis-leak" } else { "history-differs" };
                                // all-coinductive hierarchies with cyclic impls: the recorded SLG reuse defect (C05/C10) shows here too
                                let co = if program_has_co_cycle(&case.pg.program) { ":coinductive-cycle" } else { "" };
                                let co = if co.is_empty() && sv != Sv::Slg { env_qual(&case.pg.goals[*gi], &case.pg.program) } else { co };
                                out.fail(
                                    format!("{}:{}:{}{}", sv.name(), leak, super::c10::diff_class(exp, &got), co),
                                    format!("[{}] goal `{}` at position {}: fresh solver says `{}`, shared solver says `{}`\n{}history (goal texts): {:?}", sv.name(), lg.text, pos, exp, got, low.text, case.history[..=pos].iter().map(|i| low.goals[*i].as_ref().map(|g| g.text.clone()).unwrap_or_default()).collect::<Vec<_>>()),
                                );
                                break;
                            }
                            if gi % 2 == 1 && seen_with.contains(&(gi - 1)) {
                                out.nontrivial.push(hash_of(&(&low.text, &lg.text, sv.name(), &case.history[..=pos])));
                                out.bump("hypothesis_free_goal_after_its_twin");
                            }
                        }
                        Run::Panic(m) => {
                            out.fail(format!("{}:panic-on-shared-solver:{}", sv.name(), m), format!("[{}] goal `{}` panics on the shared solver: {}\n{}", sv.name(), lg.text, m, low.text));
                            break;
                        }
                        _ => break,
                    }
                    if gi % 2 == 0 {
                        seen_with.push(*gi);
                    }
                }
            }
        });
        out
    }
}
