//! C05 — auto traits and coinductive traits follow coinductive semantics; results that relied on a
//! cyclic assumption that later failed are never reported or reused.
use super::common::*;
use crate::drive::*;
use crate::gen::*;
use crate::model::*;
use crate::refsem::*;
use crate::runner::*;
use crate::tape::Tape;
use serde::{Deserialize, Serialize};
use serde_json::{json, Value};

pub struct C05;

#[derive(Clone, Debug, Serialize, Deserialize)]
pub struct Case {
    pub pg: PG,
    /// order in which the goals are posed to ONE solver instance (with repetitions)
    pub order: Vec<usize>,
}

fn gen_ground_goal(t: &mut Tape, p: &Program) -> Goal {
    let co: Vec<usize> = (0..p.traits.len()).filter(|i| p.traits[*i].kind != TraitKind::Inductive && p.traits[*i].extra == 0).collect();
    let n = 1 + if t.chance(20) { 1 } else { 0 };
    let body = (0..n)
        .map(|_| {
            let tr = if !co.is_empty() && !t.chance(15) { co[t.choose(co.len())] } else { t.choose(p.traits.len()) };
            let ty = gen_ty(t, p, &[], 3);
            let mut args = vec![ty];
            for _ in 0..p.traits[tr].extra {
                args.push(gen_ty(t, p, &[], 1));
            }
            Lit::Holds(TRef { tr, args })
        })
        .collect();
    Goal { prefix: vec![], body }
}

impl Property for C05 {
    type Case = Case;
    fn id(&self) -> &'static str {
        "C05"
    }
    fn rule(&self) -> String {
        "case = generated F-auto program — auto and #[coinductive] traits over recursive and mutually recursive structs/enums with fields, explicit positive and negative auto-trait impls (generic and specific), coinductive impls depending only on coinductive goals; or a densely cyclic coinductive program constructed as ring + chords + failing leaves — with 5 closed goals `Type: Trait` over concrete types of depth <= 4, posed in a generated order (with repetitions) to ONE solver instance per solver. Oracle: the greatest-fixed-point value of the reference model (explicit impl applies, else — only if the constructor has no explicit or negative impl — all constituents; cycles count as satisfied); goals within limits must be answered Unique / 'No possible solution' accordingly on a fresh solver, and every answer in the shared-instance order must equal the fresh answer. Non-trivial = goal whose reference evaluation goes through a coinductive cycle (sub-class counted: a cycle that fails because one member fails); distinct by hash of (program, goal, solver).".into()
    }
    fn assumptions(&self) -> Vec<String> {
        vec!["reference semantics as in C01 (GFP for auto/coinductive atoms)".into(), "no mixed inductive/coinductive cycles are generated, as the property requires".into()]
    }
    fn cases_per_shard(&self, tier: Tier) -> u32 {
        tier.pick(600, 6000)
    }
    fn decode(&self, t: &mut Tape, _tier: Tier) -> Case {
        let pg = if t.chance(35) {
            let program = gen_dense_coinductive(t);
            let goals = (0..5).map(|_| gen_dense_goal(t, &program)).collect();
            PG { program, goals }
        } else {
            let program = gen_program(t, &GenCfg::auto_heavy());
            let goals = (0..5).map(|_| gen_ground_goal(t, &program)).collect();
            PG { program, goals }
        };
        let len = 3 + t.choose(8);
        let order = (0..len).map(|_| t.choose(5)).collect();
        Case { pg, order }
    }
    fn describe(&self, c: &Case) -> Value {
        let mut v = c.pg.describe();
        v["order_on_one_solver"] = json!(c.order);
        v
    }
    fn shrink(&self, c: &Case) -> Vec<Case> {
        let mut out = vec![];
        for i in 0..c.order.len() {
            let mut q = c.clone();
            q.order.remove(i);
            out.push(q);
        }
        for p in shrink_program(&c.pg.program) {
            if c.pg.goals.iter().all(|g| goal_traits_ok(g, p.traits.len())) {
                out.push(Case { pg: PG { program: p, goals: c.pg.goals.clone() }, order: c.order.clone() });
            }
        }
        out
    }
    fn run(&self, case: &Case, _tier: Tier) -> CaseOut {
        let mut out = CaseOut::default();
        let low = match lower_pg(&case.pg, &mut out) {
            Some(l) => l,
            None => return out,
        };
        let names = Names { program: &low.program, model: &case.pg.program };
        with_program(&low, || {
            // oracle per goal
            let oracle: Vec<Option<SolutionSets>> = case.pg.goals.iter().map(|g| if goal_is_closed(g) { Some(solution_sets(&case.pg.program, g, 2, 10)) } else { None }).collect();
            for sv in Sv::BOTH {
                let mut fresh: Vec<Option<String>> = vec![];
                for (gi, g) in case.pg.goals.iter().enumerate() {
                    let (lg, sets) = match (&low.goals[gi], &oracle[gi]) {
                        (Some(a), Some(b)) => (a, b),
                        _ => {
                            fresh.push(None);
                            continue;
                        }
                    };
                    let sol = match solve_judged(&low, lg, sv, &mut out) {
                        Some(s) => s,
                        None => {
                            fresh.push(None);
                            continue;
                        }
                    };
                    let rendered = render(&sol);
                    fresh.push(Some(rendered.clone()));
                    let ans = match names.convert(&lg.peeled, &sol) {
                        Ok(a) => a,
                        Err(_) => continue,
                    };
                    let v = if !sets.s.is_empty() {
                        Tri::True
                    } else if !sets.n.is_empty() {
                        Tri::False
                    } else {
                        Tri::Unknown
                    };
                    let co = co_qual_st(g, &sets.st, false);
                    if let Some((class, msg)) = check_answer(&case.pg.program, &lg.peeled, &ans, sets) {
                        out.fail(format!("{}:{}{}", sv.name(), class, co), format!("[{}] {}\n{}goal: {}\nanswer: {}", sv.name(), msg, low.text, lg.text, rendered));
                        continue;
                    }
                    let within = v.definite() && !sets.st.incomplete && sets.st.max_size + 2 <= 10 && sets.st.atoms * 3 < 100;
                    if within && matches!(ans, Ans::Ambig | Ans::Definite(..)) {
                        out.fail(format!("{}:closed-goal-ambiguous{}", sv.name(), co), format!("[{}] closed goal within limits answered `{}` but its coinductive value is {:?}\n{}goal: {}", sv.name(), rendered, v, low.text, lg.text));
                        continue;
                    }
                    if within && sets.st.co_cycle {
                        out.nontrivial.push(hash_of(&(&low.text, &lg.text, sv.name())));
                        if sets.st.co_cycle_failed {
                            out.bump("cycle_that_fails_because_a_member_fails");
                        }
                        if out.sample.is_none() || sets.st.co_cycle_failed {
                            out.sample = Some(json!({"program": low.text, "goal": lg.text, "solver": sv.name(), "answer": rendered, "reference_value": format!("{:?}", v), "cycle_member_fails": sets.st.co_cycle_failed}));
                        }
                    }
                    let _ = g;
                }
                // shared instance
                let mut solver = sv.choice().into_solver();
                for (pos, gi) in case.order.iter().enumerate() {
                    let (lg, exp) = match (low.goals.get(*gi).and_then(|x| x.as_ref()), fresh.get(*gi).and_then(|x| x.as_ref())) {
                        (Some(a), Some(b)) => (a, b),
                        _ => continue,
                    };
                    out.evals += 1;
                    let (run, _) = solve_with(&mut *solver, &*low.program, &lg.peeled.goal, DEFAULT_BUDGET);
                    match run {
                        Run::Done(s) => {
                            let got = render(&s);
                            if &got != exp {
                                let mut co = if oracle[*gi].as_ref().map(|s| s.st.co_cycle).unwrap_or(false) { ":coinductive-cycle" } else { "" };
                                let mut dc = super::c10::diff_class(exp, &got);
                                // growing where-clauses: the derivation is cut off by the size limit at a point that depends on
                                // what is already tabled; a difference in precision only (one side Ambiguous) is the recorded
                                // truncation finding of C10/C11
                                if !(non_growing(&case.pg.program) && non_growing_fields(&case.pg.program)) && (exp.starts_with("Ambiguous") || got.starts_with("Ambiguous")) {
                                    dc = "precision-only:unbounded-answers".into();
                                    co = "";
                                }
                                out.fail(
                                    format!("{}:reuse-differs:{}{}", sv.name(), dc, co),
                                    format!("[{}] goal `{}` at position {} of the shared-solver order: fresh solver says `{}`, shared solver says `{}`\n{}order (goal texts): {:?}", sv.name(), lg.text, pos, exp, got, low.text, case.order[..=pos].iter().map(|i| low.goals[*i].as_ref().map(|g| g.text.clone()).unwrap_or_default()).collect::<Vec<_>>()),
                                );
                                break;
                            }
                        }
                        Run::Panic(m) => {
                            out.fail(format!("{}:panic-on-shared-solver:{}", sv.name(), m), format!("[{}] goal `{}` panics on the shared solver: {}\n{}", sv.name(), lg.text, m, low.text));
                            break;
                        }
                        _ => break,
                    }
                }
            }
        });
        out
    }
}
