//! C12 — a panic in a database callback leaves the solver usable (fault enumeration over every crash point).
use super::common::*;
use crate::drive::faultdb::*;
use crate::drive::*;
use crate::gen::*;
use crate::runner::*;
use crate::tape::Tape;
use serde_json::{json, Value};

pub struct C12;

impl Property for C12 {
    type Case = PG;
    fn id(&self) -> &'static str {
        "C12"
    }
    fn level(&self) -> &'static str {
        "fault_enumeration"
    }
    fn rule(&self) -> String {
        "(a quarter of the programs have mixed inductive / coinductive cycles) case = generated F-horn(+auto/coinductive) program with 3 goals; the solver talks to a delegating database that panics at its n-th call; for the first goal and each solver, EVERY crash point n = 0..N-1 is enumerated (N = database calls of a clean solve, capped at 120 quick / 400 thorough, then evenly sampled); in a third of the crash points a second panic is injected during the retry. After catch_unwind the same solver instance re-solves the goal and the other goals. Oracle: no later solve panics and each renders identically to a fresh solver's answer. Non-trivial = crash point n >= 1 (mid-search, beyond tests/integration/panic.rs) that was actually reached; distinct by hash of (program, goal, solver, n).".into()
    }
    fn assumptions(&self) -> Vec<String> {
        vec!["the fault-injecting database is harness code delegating to the lowered Program; program_clauses_for_env goes through the wrapper so nested callbacks are counted".into()]
    }
    fn cases_per_shard(&self, tier: Tier) -> u32 {
        tier.pick(80, 1200)
    }
    fn decode(&self, t: &mut Tape, _tier: Tier) -> PG {
        let cfg = if t.chance(40) { GenCfg::horn_auto() } else { GenCfg::horn() };
        let mut pg = super::c01::decode_pg(t, &cfg, &GoalCfg::full(), 3);
        // shape knob: mixed inductive / coinductive cycles. The other generators keep "coinductive depends only on
        // coinductive" because the reference model needs the stratification; this check compares a solver with itself
        // (fresh vs after a panic), so cycles through both kinds of trait — which chalk has to reject — can take part.
        if t.chance(25) {
            for tr in pg.program.traits.iter_mut() {
                if tr.kind == crate::model::TraitKind::Inductive && t.chance(50) {
                    tr.kind = crate::model::TraitKind::Coinductive;
                }
            }
        }
        pg
    }
    fn describe(&self, case: &PG) -> Value {
        case.describe()
    }
    fn shrink(&self, case: &PG) -> Vec<PG> {
        case.shrink()
    }
    fn run(&self, case: &PG, tier: Tier) -> CaseOut {
        let mut out = CaseOut::default();
        let low = match lower_pg(case, &mut out) {
            Some(l) => l,
            None => return out,
        };
        let cap = tier.pick(120, 400);
        with_program(&low, || {
            for sv in Sv::BOTH {
                let fdb = FaultDb::new(&*low.program);
                let fresh: Vec<Option<String>> = low
                    .goals
                    .iter()
                    .map(|lg| {
                        let lg = lg.as_ref()?;
                        match solve_fresh(&fdb, sv.choice(), &lg.peeled.goal, DEFAULT_BUDGET).0 {
                            Run::Done(s) => Some(render(&s)),
                            _ => None,
                        }
                    })
                    .collect();
                // the same goals in the same order on one instance *without* any fault: an answer that differs from the fresh
                // one here as well depends on the solver's history, not on the panic (that is C10's subject)
                let baseline: Vec<Option<String>> = {
                    let mut s = sv.choice().into_solver();
                    low.goals
                        .iter()
                        .map(|lg| {
                            let lg = lg.as_ref()?;
                            match solve_with(&mut *s, &fdb, &lg.peeled.goal, DEFAULT_BUDGET).0 {
                                Run::Done(x) => Some(render(&x)),
                                _ => None,
                            }
                        })
                        .collect()
                };
                let lg = match &low.goals[0] {
                    Some(x) => x,
                    None => continue,
                };
                let full = match &fresh[0] {
                    Some(f) => f,
                    None => continue,
                };
                fdb.calls.set(0);
                let _ = solve_fresh(&fdb, sv.choice(), &lg.peeled.goal, DEFAULT_BUDGET);
                let n = fdb.calls.get();
                out.max(&format!("db_calls:{}", sv.name()), n as u64);
                let points: Vec<usize> = if n <= cap { (0..n).collect() } else { (0..cap).map(|i| i * n / cap).collect() };
                for k in points {
                    out.evals += 1;
                    let mut solver = sv.choice().into_solver();
                    fdb.calls.set(0);
                    fdb.panic_at.set(Some(k));
                    let (first, _) = solve_with(&mut *solver, &fdb, &lg.peeled.goal, DEFAULT_BUDGET);
                    fdb.panic_at.set(None);
                    let site = fdb.last_name.get();
                    match &first {
                        Run::Panic(m) if m.contains(INJECTED) => {}
                        _ => {
                            out.bump("crash_point_not_reached");
                            continue;
                        }
                    }
                    let ctx = |msg: String| format!("[{}] {} — injected panic at database call {} ({}) of {}\n{}goal: {}\nfresh answer: {}", sv.name(), msg, k, site, n, low.text, lg.text, full);
                    let mut ok = true;
                    // optional second fault during the retry
                    if k % 3 == 1 {
                        fdb.calls.set(0);
                        fdb.panic_at.set(Some(k / 2));
                        let (again, _) = solve_with(&mut *solver, &fdb, &lg.peeled.goal, DEFAULT_BUDGET);
                        fdb.panic_at.set(None);
                        if let Run::Panic(m) = &again {
                            if !m.contains(INJECTED) {
                                out.fail(format!("{}:panics-after-injected-panic:{}", sv.name(), m), ctx(format!("retry (with a second injected fault) panicked by itself: {}", m)));
                                ok = false;
                            }
                        }
                    }
                    for gj in 0..low.goals.len() {
                        if !ok {
                            break;
                        }
                        let (lgj, exp) = match (&low.goals[gj], &fresh[gj]) {
                            (Some(a), Some(b)) => (a, b),
                            _ => continue,
                        };
                        let (r, _) = solve_with(&mut *solver, &fdb, &lgj.peeled.goal, DEFAULT_BUDGET);
                        match r {
                            Run::Done(s) => {
                                let got = render(&s);
                                if &got != exp && baseline[gj].as_ref() == Some(&got) && sv != Sv::Slg {
                                    // a cycle through inductive and coinductive traits: the recursive solver's answer depends
                                    // on where the cycle is entered (recorded finding)
                                    let mixed = case.program.impls.iter().any(|im| im.wcs.iter().any(|w| (case.program.traits[w.tr].kind == crate::model::TraitKind::Inductive) != (case.program.traits[im.head.tr].kind == crate::model::TraitKind::Inductive)));
                                    out.fail(
                                        format!("{}:answer-depends-on-history-without-any-panic:{}{}", sv.name(), super::c10::diff_class(exp, &got), if mixed { ":mixed-cycle" } else { "" }),
                                        ctx(format!("`{}` is answered `{}` on an instance that solved the other goals before (with or without the injected panic); a fresh solver says `{}`", lgj.text, got, exp)),
                                    );
                                    ok = false;
                                } else if &got != exp {
                                    out.fail(
                                        // SLG: one root cause (in-flight strand dropped on unwind) produces every kind of
                                        // difference, so the class is not refined for it
                                        if sv == Sv::Slg { "slg:wrong-answer-after-panic".to_string() } else { format!("{}:wrong-answer-after-panic:{}", sv.name(), super::c10::diff_class(exp, &got)) },
                                        ctx(format!("after the panic the same solver answers `{}` with `{}`; a fresh solver says `{}`", lgj.text, got, exp)),
                                    );
                                    ok = false;
                                }
                            }
                            Run::Panic(m) => {
                                out.fail(format!("{}:panics-after-injected-panic:{}", sv.name(), m), ctx(format!("after the panic, solving `{}` on the same solver panics: {}", lgj.text, m)));
                                ok = false;
                            }
                            _ => break,
                        }
                    }
                    if ok && k >= 1 {
                        out.nontrivial.push(hash_of(&(&low.text, &lg.text, sv.name(), k)));
                        if out.sample.is_none() {
                            out.sample = Some(json!({"program": low.text, "goal": lg.text, "solver": sv.name(), "crash_point": k, "db_call": site, "db_calls_of_clean_solve": n, "answer_after_recovery": full}));
                        }
                    }
                }
            }
        });
        out
    }
}
