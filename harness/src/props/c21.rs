//! C21 — well-formedness checking guarantees the bounds it lets code assume.
use crate::drive::*;
use crate::gen::*;
use crate::model::*;
use crate::refsem::*;
use crate::runner::*;
use crate::tape::Tape;
use chalk_integration::SolverChoice;
use serde::{Deserialize, Serialize};
use serde_json::{json, Value};

pub struct C21;

#[derive(Clone, Debug, Serialize, Deserialize)]
pub struct Case {
    pub program: Program,
}

/// a concrete type is well-formed when its arguments are and its declaration's where-clauses hold
fn well_formed(p: &Program, ge: &mut GoalEval, t: &Ty, depth: usize) -> Tri {
    match t {
        Ty::Adt(c, args) => {
            if depth == 0 {
                return Tri::Unknown;
            }
            let mut v = Tri::True;
            for a in args {
                v = v.and(well_formed(p, ge, a, depth - 1));
            }
            for wc in &p.ctors[*c].wcs {
                v = v.and(ge.holds(&wc.subst_params(args), &vec![]));
            }
            v
        }
        _ => Tri::True,
    }
}

impl Property for C21 {
    type Case = Case;
    fn id(&self) -> &'static str {
        "C21"
    }
    fn rule(&self) -> String {
        "case = generated program without auto or built-in traits: supertrait hierarchies (Self bounds and where-clauses on the trait's own parameters), structs with where-clauses and fields, impls with where-clauses — written without regard to soundness, so bounds are often missing. Oracle, only for programs accepted by checked_program() (coherence + orphan + WF) under the respective solver: over the bounded universe of concrete types (depth <= 2), every well-formed type T that implements a trait (reference model) also satisfies each of that trait's where-clauses / supertraits instantiated at T, and every field type of a well-formed struct instance is itself well-formed. Non-trivial = accepted program with >= 1 supertrait edge and >= 1 impl of the sub-trait, or a struct with where-clauses and fields that is instantiated well-formed; distinct by hash of (program, solver).".into()
    }
    fn assumptions(&self) -> Vec<String> {
        vec!["reference semantics as in C01; only definite reference values are used (a where-clause must not be definitely false)".into()]
    }
    fn cases_per_shard(&self, tier: Tier) -> u32 {
        tier.pick(150, 3000)
    }
    fn decode(&self, t: &mut Tape, _tier: Tier) -> Case {
        let cfg = GenCfg { struct_wcs: true, fields: true, enums: false, coinductive: false, auto: false, growth: false, max_impls: 7, fact_bias: 45, blanket: true, ..GenCfg::horn() };
        let mut program = gen_program(t, &cfg);
        // bias towards acceptance: half of the time add the impls that the supertraits of implemented
        // traits require for ground types
        if t.chance(50) {
            for _ in 0..3 {
                let mut add = vec![];
                for im in &program.impls {
                    if im.nparams != 0 {
                        continue;
                    }
                    for sup in &program.traits[im.head.tr].supers {
                        let s = sup.subst_params(&im.head.args);
                        if !s.args.iter().any(|a| a.has_param()) && !program.impls.iter().chain(add.iter()).any(|x: &ImplDef| x.nparams == 0 && x.head == s) {
                            add.push(ImplDef { nparams: 0, head: s, wcs: vec![], positive: true, values: vec![], upstream: false });
                        }
                    }
                }
                if add.is_empty() {
                    break;
                }
                program.impls.extend(add);
                if program.impls.len() > 14 {
                    break;
                }
            }
        }
        Case { program }
    }
    fn describe(&self, c: &Case) -> Value {
        json!({"program": print_program(&c.program)})
    }
    fn shrink(&self, c: &Case) -> Vec<Case> {
        shrink_program(&c.program).into_iter().map(|program| Case { program }).collect()
    }
    fn run(&self, case: &Case, _tier: Tier) -> CaseOut {
        let mut out = CaseOut::default();
        let p = &case.program;
        let text = print_program(p);
        for (sname, choice) in [("slg", SolverChoice::slg_default()), ("rec", SolverChoice::recursive_default())] {
            out.evals += 1;
            let (run, _) = guarded(DEFAULT_BUDGET * 20, || checked_program(&text, choice).map(|_| ()));
            match run {
                Run::Done(Ok(())) => {}
                Run::Done(Err(e)) => {
                    let kind = if e.contains("overlapping") {
                        "overlap"
                    } else if e.contains("orphan") {
                        "orphan"
                    } else if e.contains("not well-formed") || e.contains("well-formedness") || e.contains("ill-formed") {
                        "wf"
                    } else {
                        "other"
                    };
                    out.bump(&format!("{}:rejected:{}", sname, kind));
                    continue;
                }
                Run::Panic(m) => {
                    out.fail(format!("{}:checker-panics:{}", sname, m.chars().take(90).collect::<String>()), format!("[{}] checked_program panicked: {}\n{}", sname, m, text));
                    continue;
                }
                _ => {
                    out.bump(&format!("{}:budget/overflow(not judged, see C09)", sname));
                    continue;
                }
            }
            out.bump(&format!("{}:accepted", sname));
            let uni = universe(p, &[], 2, 40);
            let mut ge = GoalEval::new(p);
            let mut checked_super = 0;
            let mut checked_field = 0;
            'outer: for s in &uni {
                let wf = well_formed(p, &mut ge, s, 4);
                if wf != Tri::True {
                    continue;
                }
                // (1) implemented => where-clauses of the trait hold
                for (ti, tr) in p.traits.iter().enumerate() {
                    if tr.supers.is_empty() {
                        continue;
                    }
                    let extras: Vec<Vec<Ty>> = if tr.extra == 0 { vec![vec![]] } else { uni.iter().filter(|x| well_formed(p, &mut GoalEval::new(p), x, 4) == Tri::True).take(8).map(|x| vec![x.clone()]).collect() };
                    for ex in extras {
                        let mut args = vec![s.clone()];
                        args.extend(ex);
                        let atom = TRef { tr: ti, args: args.clone() };
                        if ge.holds(&atom, &vec![]) != Tri::True {
                            continue;
                        }
                        for sup in &tr.supers {
                            let sa = sup.subst_params(&args);
                            checked_super += 1;
                            if ge.holds(&sa, &vec![]) == Tri::False {
                                let pr = Printer { p, self_name: None };
                                // where-clauses on a trait's own parameter can be "proven" circularly: the parameter's type
                                // occurs in the impl header, is assumed well-formed there, and its well-formedness may rest
                                // on the very impl being checked
                                // — which needs the instantiated subject to be a type whose own well-formedness is a real
                                // obligation (a struct with where-clauses somewhere in it); for a plain type nothing is circular
                                fn constrained(p: &Program, t: &Ty) -> bool {
                                    match t {
                                        Ty::Adt(c, a) => !p.ctors[*c].wcs.is_empty() || a.iter().any(|x| constrained(p, x)),
                                        _ => false,
                                    }
                                }
                                let qual = if sup.args[0] == Ty::Param(0) {
                                    ""
                                } else if constrained(p, &sa.args[0]) {
                                    ":where-clause-on-trait-parameter"
                                } else {
                                    ":where-clause-on-trait-parameter-of-plain-type"
                                };
                                out.fail(format!("{}:accepted-but-implied-bound-false{}", sname, qual), format!("[{}] the program passes checked_program(), `{}` holds for the well-formed type, but the trait's where-clause `{}` does not\n{}", sname, pr.tref(&atom), pr.tref(&sa), text));
                                break 'outer;
                            }
                        }
                    }
                }
                // (2) fields of a well-formed struct instance are well-formed
                if let Ty::Adt(c, args) = s {
                    for f in p.ctors[*c].all_fields() {
                        let ft = f.subst_params(args);
                        checked_field += 1;
                        if well_formed(p, &mut ge, &ft, 4) == Tri::False {
                            let pr = Printer { p, self_name: None };
                            out.fail(format!("{}:accepted-but-field-type-ill-formed", sname), format!("[{}] the program passes checked_program(), `{}` is well-formed but its field type `{}` is not\n{}", sname, pr.ty(s), pr.ty(&ft), text));
                            break 'outer;
                        }
                    }
                }
            }
            let has_edge = p.traits.iter().enumerate().any(|(ti, t)| !t.supers.is_empty() && p.impls.iter().any(|im| im.head.tr == ti));
            if (has_edge && checked_super > 0) || checked_field > 0 {
                out.nontrivial.push(hash_of(&(&text, sname)));
                out.add("implied_bounds_checked", checked_super as u64);
                out.add("field_types_checked", checked_field as u64);
                if out.sample.is_none() && has_edge {
                    out.sample = Some(json!({"program": text, "solver": sname, "accepted": true, "implied_bounds_checked": checked_super, "field_types_checked": checked_field}));
                }
            }
        }
        out
    }
}
