//! C02 — goals without unknown types are decided definitively (and correctly).
use super::common::*;
use crate::drive::*;
use crate::gen::*;
use crate::model::*;
use crate::refsem::*;
use crate::runner::*;
use crate::tape::Tape;
use chalk_integration::SolverChoice;
use serde::{Deserialize, Serialize};
use serde_json::{json, Value};

pub struct C02;

#[derive(Clone, Debug, Serialize, Deserialize)]
pub struct Case {
    pub pg: PG,
    /// reduced limits: (slg max_size, rec max_size, rec overflow depth, rec caching)
    pub slg_max: usize,
    pub rec_max: usize,
    pub rec_overflow: usize,
    pub rec_cache: bool,
}

fn trait_has_nonself_wc(p: &Program) -> bool {
    p.traits.iter().any(|t| t.supers.iter().any(|s| s.args[0] != Ty::Param(0) || s.args[1..].iter().any(|a| a.has_param())))
}

impl Property for C02 {
    type Case = Case;
    fn id(&self) -> &'static str {
        "C02"
    }
    fn rule(&self) -> String {
        "case = generated F-horn(+auto/coinductive, supertraits) program with 4 closed goals (concrete predicates, forall, if, conjunction, not around placeholder-free predicates), each solved by SLG and the recursive solver at default limits and at one generated reduced configuration (SLG max_size in {10,7,5}; recursive max_size in {30,12,8}, overflow in {100,40}, cache on/off). Oracle: reference value of the goal; if it is definite, exploration was complete, max type size + 2 <= max_size and (recursive) 3*#atoms < overflow depth, the solver must answer Unique for true / 'No possible solution' for false — Ambiguous is a violation. Otherwise only soundness is checked. Non-trivial = judged (program, goal, configuration) whose derivation visits >=3 atoms, or goes through a cycle, or uses a hypothesis; distinct by hash.".into()
    }
    fn assumptions(&self) -> Vec<String> {
        vec![
            "reference semantics as in C01".into(),
            "the 'within limits' predicate is conservative (margin 2 on type size, factor 3 on atoms vs overflow depth): degradations that occur only at the very edge of a limit are not claimed".into(),
            "recursive solver with caching disabled is only run on non-growing programs (exponential re-solving is legitimate there)".into(),
        ]
    }
    fn cases_per_shard(&self, tier: Tier) -> u32 {
        tier.pick(600, 6000)
    }
    fn decode(&self, t: &mut Tape, _tier: Tier) -> Case {
        let cfg = if t.chance(50) { GenCfg::horn_auto() } else { GenCfg::horn() };
        let pg = super::c01::decode_pg(t, &cfg, &GoalCfg::closed(), 4);
        Case { pg, slg_max: [10, 7, 5][t.choose(3)], rec_max: [30, 12, 8][t.choose(3)], rec_overflow: [100, 40][t.choose(2)], rec_cache: !t.chance(30) }
    }
    fn describe(&self, c: &Case) -> Value {
        let mut v = c.pg.describe();
        v["config"] = json!({"slg_max_size": c.slg_max, "rec_max_size": c.rec_max, "rec_overflow_depth": c.rec_overflow, "rec_caching": c.rec_cache});
        v
    }
    fn shrink(&self, c: &Case) -> Vec<Case> {
        c.pg.shrink().into_iter().map(|pg| Case { pg, ..c.clone() }).collect()
    }
    fn run(&self, case: &Case, _tier: Tier) -> CaseOut {
        let mut out = CaseOut::default();
        let low = match lower_pg(&case.pg, &mut out) {
            Some(l) => l,
            None => return out,
        };
        let names = Names { program: &low.program, model: &case.pg.program };
        let ng = non_growing(&case.pg.program);
        // (name, choice, max_size, overflow depth (None for slg))
        let mut configs: Vec<(String, SolverChoice, usize, Option<usize>)> = vec![
            ("slg".into(), SolverChoice::slg_default(), 10, None),
            ("rec".into(), SolverChoice::recursive_default(), 30, Some(100)),
        ];
        if case.slg_max != 10 {
            configs.push((format!("slg(max_size={})", case.slg_max), SolverChoice::SLG { max_size: case.slg_max, expected_answers: None }, case.slg_max, None));
        }
        if (case.rec_max, case.rec_overflow, case.rec_cache) != (30, 100, true) && (case.rec_cache || ng) {
            configs.push((
                format!("rec(max_size={},overflow={},cache={})", case.rec_max, case.rec_overflow, case.rec_cache),
                SolverChoice::Recursive { overflow_depth: case.rec_overflow, caching_enabled: case.rec_cache, max_size: case.rec_max },
                case.rec_max,
                Some(case.rec_overflow),
            ));
        }
        with_program(&low, || {
            for (gi, g) in case.pg.goals.iter().enumerate() {
                let lg = match &low.goals[gi] {
                    Some(x) => x,
                    None => continue,
                };
                if !goal_is_closed(g) {
                    continue;
                }
                let sets = solution_sets(&case.pg.program, g, 2, 10);
                let v = if !sets.s.is_empty() {
                    Tri::True
                } else if !sets.n.is_empty() {
                    Tri::False
                } else {
                    Tri::Unknown
                };
                for (name, choice, max_size, overflow) in &configs {
                    let base = name.split('(').next().unwrap();
                    let sol = match solve_judged_cfg(&low, lg, base, *choice, &mut out) {
                        Some(s) => s,
                        None => continue,
                    };
                    let rendered = render(&sol);
                    let ans = match names.convert(&lg.peeled, &sol) {
                        Ok(a) => a,
                        Err(e) => {
                            out.fail(format!("{}:answer-outside-model", name), format!("[{}] {}\n{}goal: {}", name, e, low.text, lg.text));
                            continue;
                        }
                    };
                    // soundness direction always
                    if let Some((class, msg)) = check_answer(&case.pg.program, &lg.peeled, &ans, &sets) {
                        let co = co_qual_st(g, &sets.st, false);
                        out.fail(format!("{}:{}{}", base, class, co), format!("[{}] {}\n{}goal: {}\nanswer: {}", name, msg, low.text, lg.text, rendered));
                        continue;
                    }
                    let within = v.definite() && !sets.st.incomplete && sets.st.max_size + 2 <= *max_size && overflow.map(|o| sets.st.atoms * 3 < o).unwrap_or(true);
                    if !within {
                        out.bump(if v.definite() { "out_of_limits(not judged for decidedness)" } else { "oracle_unknown(not judged)" });
                        continue;
                    }
                    out.bump(&format!("judged:{}", base));
                    if matches!(ans, Ans::Ambig | Ans::Definite(..)) {
                        let mut class = format!("{}:closed-goal-ambiguous", base);
                        if sets.st.env_elaborated && trait_has_nonself_wc(&case.pg.program) {
                            class.push_str(":env-elaboration-nonself-wc");
                        } else if sets.st.used_env && env_existential(&case.pg.program) {
                            class.push_str(":env-with-trait-params");
                        } else if sets.st.used_env {
                            class.push_str(":uses-env");
                        }
                        if sets.st.co_cycle && !class.contains(":env") {
                            class.push_str(":coinductive-cycle");
                        }
                        out.fail(class, format!("[{}] closed goal within limits answered `{}` but its logical value is {:?} (atoms {}, max type size {})\n{}goal: {}", name, rendered, v, sets.st.atoms, sets.st.max_size, low.text, lg.text));
                        continue;
                    }
                    if sets.st.atoms >= 3 || sets.st.cycle || sets.st.used_env {
                        out.nontrivial.push(hash_of(&(&low.text, &lg.text, name)));
                        if out.sample.is_none() || sets.st.cycle {
                            out.sample = Some(json!({"program": low.text, "goal": lg.text, "config": name, "answer": rendered, "oracle_value": format!("{:?}", v), "atoms": sets.st.atoms, "cycle": sets.st.cycle, "used_env": sets.st.used_env}));
                        }
                    }
                }
            }
        });
        out
    }
}
