//! C13 — declaration order does not change solutions (metamorphic).
use super::common::*;
use crate::drive::*;
use crate::gen::*;
use crate::model::*;
use crate::runner::*;
use crate::tape::Tape;
use serde::{Deserialize, Serialize};
use serde_json::{json, Value};

pub struct C13;

#[derive(Clone, Debug, Serialize, Deserialize)]
pub struct Case {
    pub pg: PG,
    /// item order of the permuted program: (0 ctor | 1 trait | 2 impl, index)
    pub order: Vec<(u8, usize)>,
    /// the same program with where-clause lists (impl, trait, struct) reordered
    pub inner: Program,
}

fn permuted_text(c: &Case) -> String {
    print_program_ordered(&c.inner, &c.order)
}

impl Property for C13 {
    type Case = Case;
    fn id(&self) -> &'static str {
        "C13"
    }
    fn rule(&self) -> String {
        "case = generated program (F-horn, auto/coinductive) with 4 goals and a generated permutation of its items (structs, traits, impls interleaved arbitrarily) and of every where-clause list; both texts go through chalk's parser/lowering; per solver the rendered answers (names stable) must be identical. Only goals whose search stays within limits are judged (no overflow / work-budget excess in either run). Non-trivial = (program, permutation, goal, solver) where the goal has >=2 applicable clauses in the reference model's rule table or an existential variable, and the permutation moved an impl or a where-clause; distinct by hash.".into()
    }
    fn assumptions(&self) -> Vec<String> {
        vec!["answers compared as rendered strings (constraints sorted)".into()]
    }
    fn cases_per_shard(&self, tier: Tier) -> u32 {
        tier.pick(600, 6000)
    }
    fn decode(&self, t: &mut Tape, _tier: Tier) -> Case {
        let cfg = if t.chance(55) { GenCfg::horn_auto() } else { GenCfg::horn() };
        let pg = super::c01::decode_pg(t, &cfg, &GoalCfg::full(), 4);
        let mut order: Vec<(u8, usize)> = (0..pg.program.ctors.len()).map(|i| (0u8, i)).chain((0..pg.program.traits.len()).map(|i| (1u8, i))).chain((0..pg.program.impls.len()).map(|i| (2u8, i))).collect();
        t.shuffle(&mut order);
        let mut inner = pg.program.clone();
        for im in inner.impls.iter_mut() {
            t.shuffle(&mut im.wcs);
        }
        for tr in inner.traits.iter_mut() {
            t.shuffle(&mut tr.supers);
        }
        // the all-zero tape gives the identity: make sure something moves
        if order.iter().enumerate().all(|(i, _)| i == 0 || order[i - 1] <= order[i]) {
            order.reverse();
        }
        Case { pg, order, inner }
    }
    fn describe(&self, c: &Case) -> Value {
        let mut v = c.pg.describe();
        v["permuted_program"] = json!(permuted_text(c));
        v
    }
    fn shrink(&self, c: &Case) -> Vec<Case> {
        let mut out = vec![];
        if c.pg.goals.len() > 1 {
            for i in 0..c.pg.goals.len() {
                let mut q = c.clone();
                q.pg.goals.remove(i);
                out.push(q);
            }
        }
        // remove impl i from both programs and the order
        for i in 0..c.pg.program.impls.len() {
            let mut q = c.clone();
            q.pg.program.impls.remove(i);
            // find the same impl in `inner` (same index: only wcs were shuffled)
            q.inner.impls.remove(i);
            q.order = c.order.iter().filter(|(k, j)| !(*k == 2 && *j == i)).map(|(k, j)| if *k == 2 && *j > i { (*k, *j - 1) } else { (*k, *j) }).collect();
            out.push(q);
        }
        for i in 0..c.pg.program.impls.len() {
            for w in 0..c.pg.program.impls[i].wcs.len() {
                let mut q = c.clone();
                let removed = q.pg.program.impls[i].wcs.remove(w);
                if let Some(pos) = q.inner.impls[i].wcs.iter().position(|x| *x == removed) {
                    q.inner.impls[i].wcs.remove(pos);
                    out.push(q);
                }
            }
        }
        for i in 0..c.pg.program.traits.len() {
            for w in 0..c.pg.program.traits[i].supers.len() {
                let mut q = c.clone();
                let removed = q.pg.program.traits[i].supers.remove(w);
                if let Some(pos) = q.inner.traits[i].supers.iter().position(|x| *x == removed) {
                    q.inner.traits[i].supers.remove(pos);
                    out.push(q);
                }
            }
        }
        for i in 0..c.pg.program.ctors.len() {
            for v in 0..c.pg.program.ctors[i].variants.len() {
                for f in 0..c.pg.program.ctors[i].variants[v].len() {
                    let mut q = c.clone();
                    q.pg.program.ctors[i].variants[v].remove(f);
                    q.inner.ctors[i].variants[v].remove(f);
                    out.push(q);
                }
            }
        }
        for (i, g) in c.pg.goals.iter().enumerate() {
            for g2 in shrink_goal(g) {
                let mut q = c.clone();
                q.pg.goals[i] = g2;
                out.push(q);
            }
        }
        out
    }
    fn run(&self, case: &Case, _tier: Tier) -> CaseOut {
        let mut out = CaseOut::default();
        let low = match lower_pg(&case.pg, &mut out) {
            Some(l) => l,
            None => return out,
        };
        let ptext = permuted_text(case);
        if ptext == low.text {
            out.bump("identity_permutation");
            return out;
        }
        let pprog = match catch(|| lower_program(&ptext)) {
            Ok(Ok(p)) => p,
            Ok(Err(e)) => {
                out.fail("order-changes-lowering", format!("the permuted program does not lower although the original does: {}\n--- original\n{}--- permuted\n{}", e, low.text, ptext));
                return out;
            }
            Err(m) => {
                out.fail(format!("lowering/panic:{}", m), format!("lowering of the permuted program panicked: {}\n{}", m, ptext));
                return out;
            }
        };
        let moved_clause = {
            let impl_order: Vec<usize> = case.order.iter().filter(|(k, _)| *k == 2).map(|(_, i)| *i).collect();
            impl_order.windows(2).any(|w| w[0] > w[1]) || case.pg.program.impls.iter().zip(&case.inner.impls).any(|(a, b)| a.wcs != b.wcs) || case.pg.program.traits.iter().zip(&case.inner.traits).any(|(a, b)| a.supers != b.supers)
        };
        let ng = non_growing(&case.pg.program);
        let fin = finite_answers(&case.pg.program);
        for (gi, g) in case.pg.goals.iter().enumerate() {
            let lg = match &low.goals[gi] {
                Some(x) => x,
                None => continue,
            };
            // "within the solver's size limits": derivations are size-bounded by the goal (non-growing
            // where-clauses) and, for goals with unknowns, answers cannot grow (no constructor applied to a
            // parameter in an impl header); otherwise truncation may legitimately depend on clause order
            if !ng || (!goal_is_closed(g) && !fin) {
                out.bump("goal_may_exceed_size_limits(not judged)");
                continue;
            }
            let ppeeled = match chalk_integration::tls::set_current_program(&pprog, || catch(|| parse_and_peel(&pprog, &lg.text))) {
                Ok(Ok(p)) => p,
                _ => {
                    out.fail("order-changes-goal-lowering", format!("goal `{}` lowers against the original but not against the permuted program\n{}", lg.text, ptext));
                    continue;
                }
            };
            for sv in Sv::BOTH {
                out.evals += 1;
                let a = with_program(&low, || {
                    let (r, _) = solve_fresh(&*low.program, sv.choice(), &lg.peeled.goal, DEFAULT_BUDGET);
                    match r {
                        Run::Done(s) => Some(render(&s)),
                        _ => None,
                    }
                });
                let b = chalk_integration::tls::set_current_program(&pprog, || {
                    let (r, _) = solve_fresh(&*pprog, sv.choice(), &ppeeled.goal, DEFAULT_BUDGET);
                    match r {
                        Run::Done(s) => Some(render(&s)),
                        Run::Panic(m) => Some(format!("<PANIC {}>", m)),
                        _ => None,
                    }
                });
                let (a, b) = match (a, b) {
                    (Some(a), Some(b)) => (a, b),
                    _ => {
                        out.bump("outside_limits_or_panic(not judged)");
                        continue;
                    }
                };
                if a != b {
                    let st = crate::refsem::solution_sets(&case.pg.program, g, 2, 50).st;
                    let dc = super::c10::diff_class(&a, &b);
                    let co = if st.co_cycle && !dc.contains("repeated-var") { ":coinductive-cycle" } else { "" };
                    let co = if co.is_empty() && sv != Sv::Slg { env_qual(g, &case.pg.program) } else { co };
                    out.fail(
                        format!("{}:order-differs:{}{}", sv.name(), dc, co),
                        format!("[{}] goal `{}`: original program gives `{}`, permuted program gives `{}`\n--- original\n{}--- permuted\n{}", sv.name(), lg.text, a, b, low.text, ptext),
                    );
                    continue;
                }
                let st_rules = !goal_is_closed(g) || g.body.len() > 1;
                if moved_clause && st_rules {
                    out.nontrivial.push(hash_of(&(&low.text, &ptext, &lg.text, sv.name())));
                    if out.sample.is_none() {
                        out.sample = Some(json!({"original": low.text, "permuted": ptext, "goal": lg.text, "solver": sv.name(), "answer": a}));
                    }
                }
            }
        }
        out
    }
}
