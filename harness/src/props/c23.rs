//! C23 — the logged program reproduces the solver's answers.
use super::common::*;
use crate::drive::*;
use crate::gen::*;
use crate::model::*;
use crate::runner::*;
use crate::tape::Tape;
use chalk_integration::interner::ChalkIr;
use chalk_integration::program::Program as CProgram;
use chalk_integration::tls;
use chalk_solve::logging_db::LoggingRustIrDatabase;
use serde::{Deserialize, Serialize};
use serde_json::{json, Value};
use std::sync::Arc;

pub struct C23;

#[derive(Clone, Debug, Serialize, Deserialize)]
pub struct Case {
    pub pg: PG,
    /// which fragment the program came from
    pub fragment: String,
    /// order in which the goals are solved through the recording wrapper (indices into pg.goals, repeats allowed)
    pub history: Vec<usize>,
}

/// header-only declarations (flags kept, no fields / where-clauses / bounds — like chalk's write_stub_items) for the
/// structs and traits that `goal_text` names and the logged program lacks
fn stubs_for_goal(model: &Program, lprog: &CProgram, goal_text: &str) -> (String, Vec<String>) {
    let mut toks: Vec<String> = vec![];
    let mut cur = String::new();
    for ch in goal_text.chars() {
        if ch.is_alphanumeric() || ch == '_' {
            cur.push(ch);
        } else if !cur.is_empty() {
            toks.push(std::mem::take(&mut cur));
        }
    }
    if !cur.is_empty() {
        toks.push(cur);
    }
    let mut text = String::new();
    let mut names = vec![];
    for c in &model.ctors {
        if toks.contains(&c.name) && !lprog.adt_ids.keys().any(|k| k.to_string() == c.name) {
            let mut c2 = c.clone();
            c2.wcs.clear();
            for v in c2.variants.iter_mut() {
                v.clear();
            }
            text.push_str(&print_ctor(model, &c2));
            text.push('\n');
            names.push(c.name.clone());
        }
    }
    for t in &model.traits {
        if toks.contains(&t.name) && !lprog.trait_ids.keys().any(|k| k.to_string() == t.name) {
            let mut t2 = t.clone();
            t2.supers.clear();
            for a in t2.assocs.iter_mut() {
                a.1.clear();
            }
            t2.assoc_wcs.clear();
            text.push_str(&print_trait(model, &t2));
            text.push('\n');
            names.push(t.name.clone());
        }
    }
    (text, names)
}

/// `type Assoc where Self: Trait;` on some associated types (round 7, seed C23z): the where-clause names either a
/// parameterless trait of the program or a fresh trait that nothing else mentions, so the logged program is only
/// complete if the recording wrapper collects the names inside associated-type where-clauses of the traits it prints.
fn add_assoc_where_clauses(t: &mut Tape, pg: &mut super::common::PG) {
    let with_assoc: Vec<usize> = (0..pg.program.traits.len()).filter(|i| !pg.program.traits[*i].assocs.is_empty()).collect();
    if with_assoc.is_empty() || t.choose(4) == 0 {
        return;
    }
    let n = 1 + t.choose(2);
    for k in 0..n {
        let ti = with_assoc[t.choose(with_assoc.len())];
        let ai = t.choose(pg.program.traits[ti].assocs.len());
        let plain: Vec<usize> = (0..pg.program.traits.len()).filter(|i| pg.program.traits[*i].extra == 0 && pg.program.traits[*i].lang.is_none()).collect();
        let target = if plain.is_empty() || t.choose(2) == 0 {
            pg.program.traits.push(crate::gen::new_trait(&format!("Only{}", k), 0, crate::model::TraitKind::Inductive));
            pg.program.traits.len() - 1
        } else {
            plain[t.choose(plain.len())]
        };
        if !pg.program.traits[ti].assoc_wcs.contains(&(ai, target)) {
            pg.program.traits[ti].assoc_wcs.push((ai, target));
        }
    }
}

fn shrink_case(c: &Case) -> Vec<Case> {
    let mut out = vec![];
    for i in 0..c.history.len() {
        if c.history.len() > 1 {
            let mut q = c.clone();
            q.history.remove(i);
            out.push(q);
        }
    }
    for pg in c.pg.shrink() {
        if pg.goals.len() == c.pg.goals.len() {
            out.push(Case { pg, fragment: c.fragment.clone(), history: c.history.clone() });
        }
    }
    out
}

impl Property for C23 {
    type Case = Case;
    fn id(&self) -> &'static str {
        "C23"
    }
    fn rule(&self) -> String {
        "case = generated program of the C01 (Horn, auto/coinductive, conjunctive), C05 (auto-trait heavy, dense coinductive), C06 (environment: where-clauses on traits and structs, goals with hypotheses), C07 (associated types: Normalize / projection goals) or C08 (built-in traits) fragment with 4-5 goals and a generated history (sequence of goal indices, repeats allowed). Per solver (SLG, recursive): every goal of the history is solved with a fresh solver through one LoggingRustIrDatabase wrapped around the program; the wrapper's Display output is then parsed and lowered, each goal is lowered against that logged program and solved on it directly. Oracle: (a) the wrapper is transparent: the answer through it equals the answer on the bare program; (b) the logged text lowers and every solved goal lowers against it; (c) the rendered answer on the logged program equals the answer on the original. Goals outside the solvers' limits (overflow, work budget, growing where-clauses, unbounded answer sets) are not judged. Differences that the order check (C13) already attributes to clause order on the original solver (the logged program lists items in recording order) are classified with C13's classes. Non-trivial = (program, goal, solver) judged where the logged program omits at least one impl or item of the original (the wrapper really filtered) or the goal has an existential variable / hypothesis; distinct by hash.".into()
    }
    fn assumptions(&self) -> Vec<String> {
        vec!["answers are compared as rendered strings under each program's own name tables (item names are stable through the writer; generated programs have no name clashes)".into(), "a fresh solver per goal on both sides, so history-dependence of one solver (C05/C10) does not enter".into()]
    }
    fn cases_per_shard(&self, tier: Tier) -> u32 {
        tier.pick(300, 5000)
    }
    fn decode(&self, t: &mut Tape, tier: Tier) -> Case {
        let (pg, fragment) = match t.choose(20) {
            0..=6 => {
                let cfg = match t.choose(3) {
                    0 => GenCfg::horn(),
                    1 => GenCfg::horn_auto(),
                    _ => GenCfg::env(),
                };
                (super::c01::decode_pg(t, &cfg, &GoalCfg::full(), 4), "c01")
            }
            7..=9 => {
                let c = super::c05::C05.decode(t, tier);
                (c.pg, "c05")
            }
            10..=12 => {
                let c = super::c06::C06.decode(t, tier);
                (c.pg, "c06")
            }
            13..=17 => {
                let mut pg = super::c07::C07.decode(t, tier);
                add_assoc_where_clauses(t, &mut pg);
                (pg, "c07")
            }
            _ => (super::c08::C08.decode(t, tier), "c08"),
        };
        let n = pg.goals.len().max(1);
        let len = 1 + t.choose(5);
        let history = (0..len).map(|_| t.choose(n)).collect();
        Case { pg, fragment: fragment.into(), history }
    }
    fn describe(&self, c: &Case) -> Value {
        let mut v = c.pg.describe();
        v["history"] = json!(c.history);
        v["fragment"] = json!(c.fragment);
        v
    }
    fn shrink(&self, c: &Case) -> Vec<Case> {
        shrink_case(c)
    }
    fn run(&self, case: &Case, _tier: Tier) -> CaseOut {
        let mut out = CaseOut::default();
        out.bump(&format!("fragment:{}", case.fragment));
        let low = match lower_pg(&case.pg, &mut out) {
            Some(l) => l,
            None => return out,
        };
        let ng = non_growing(&case.pg.program) && non_growing_fields(&case.pg.program);
        let fin = finite_answers(&case.pg.program);
        let co = program_has_co_cycle(&case.pg.program);
        for sv in Sv::BOTH {
            let wrapped = LoggingRustIrDatabase::<ChalkIr, CProgram, Arc<CProgram>>::new(low.program.clone());
            // (goal index, answer through the wrapper)
            let mut answers: Vec<(usize, String)> = vec![];
            for &gi in &case.history {
                let lg = match low.goals.get(gi).and_then(|x| x.as_ref()) {
                    Some(x) => x,
                    None => continue,
                };
                out.evals += 1;
                let through = with_program(&low, || render_run(&solve_fresh(&wrapped, sv.choice(), &lg.peeled.goal, DEFAULT_BUDGET).0));
                let bare = with_program(&low, || render_run(&solve_fresh(&*low.program, sv.choice(), &lg.peeled.goal, DEFAULT_BUDGET).0));
                if through != bare && !through.starts_with("<work") && !bare.starts_with("<work") {
                    out.fail(format!("{}:wrapper-changes-answer", sv.name()), format!("[{}] goal `{}`: `{}` through the recording wrapper, `{}` on the bare program\n{}", sv.name(), lg.text, through, bare, low.text));
                }
                answers.push((gi, through));
            }
            let logged = match catch(|| tls::set_current_program(&low.program, || wrapped.to_string())) {
                Ok(s) => s,
                Err(m) => {
                    out.fail(format!("{}:logging-panics:{}", sv.name(), m.chars().take(100).collect::<String>()), format!("printing the recorded program panicked: {}\n{}", m, low.text));
                    continue;
                }
            };
            if answers.is_empty() {
                continue;
            }
            let lprog = match catch(|| lower_program(&logged)) {
                Ok(Ok(p)) => p,
                Ok(Err(e)) => {
                    let class: String = e.split('`').next().unwrap_or("").chars().take(60).collect();
                    out.fail(format!("{}:logged-program-does-not-lower:{}", sv.name(), class.trim()), format!("[{}] the logged program does not parse/lower: {}\n--- original\n{}--- logged\n{}", sv.name(), e, low.text, logged));
                    continue;
                }
                Err(m) => {
                    out.fail(format!("{}:logged-program-panics-lowering:{}", sv.name(), m.chars().take(80).collect::<String>()), format!("{}\n{}", m, logged));
                    continue;
                }
            };
            let filtered = lprog.impl_data.len() < low.program.impl_data.len() || lprog.adt_data.len() < low.program.adt_data.len() || lprog.trait_data.len() < low.program.trait_data.len();
            if filtered {
                out.bump("logged_program_is_a_strict_subset");
            }
            let mut seen = std::collections::BTreeSet::new();
            for (gi, a) in &answers {
                if !seen.insert(*gi) {
                    continue;
                }
                let g = &case.pg.goals[*gi];
                let lg = low.goals[*gi].as_ref().unwrap();
                if a.starts_with('<') {
                    out.bump("outside_limits_or_panic(not judged)");
                    continue;
                }
                if !ng || (!goal_is_closed(g) && !fin) {
                    out.bump("goal_may_exceed_size_limits(not judged)");
                    continue;
                }
                let mut gprog = lprog.clone();
                let mut first = tls::set_current_program(&gprog, || catch(|| parse_and_peel(&gprog, &lg.text)));
                if let Ok(Err(e)) = &first {
                    // known finding: the wrapper only sees database queries, so an item that the goal names but the solver
                    // never asked about is missing. Declare exactly those names as stubs (header only, as chalk's own
                    // write_stub_items does) and go on, so that the answers are still compared.
                    let (stubs, names) = stubs_for_goal(&case.pg.program, &lprog, &lg.text);
                    if !names.is_empty() {
                        out.fail(format!("{}:goal-names-unrecorded-item", sv.name()), format!("[{}] goal `{}` was solved through the wrapper but does not lower against the logged program ({}): {:?} never reached the database\n--- original\n{}--- logged\n{}", sv.name(), lg.text, e, names, low.text, logged));
                        let augmented = format!("{}\n{}", logged, stubs);
                        if let Ok(Ok(p2)) = catch(|| lower_program(&augmented)) {
                            gprog = p2;
                            first = tls::set_current_program(&gprog, || catch(|| parse_and_peel(&gprog, &lg.text)));
                        }
                    }
                }
                let lpeeled = match first {
                    Ok(Ok(p)) => p,
                    Ok(Err(e)) => {
                        let class: String = e.split('`').next().unwrap_or("").chars().take(60).collect();
                        out.fail(format!("{}:goal-does-not-lower-against-logged-program:{}", sv.name(), class.trim()), format!("[{}] goal `{}` was solved through the wrapper but does not lower against the logged program: {}\n--- original\n{}--- logged\n{}", sv.name(), lg.text, e, low.text, logged));
                        continue;
                    }
                    Err(m) => {
                        out.fail(format!("{}:goal-lowering-panics:{}", sv.name(), m.chars().take(80).collect::<String>()), format!("{}\n{}", m, logged));
                        continue;
                    }
                };
                let b = tls::set_current_program(&gprog, || render_run(&solve_fresh(&*gprog, sv.choice(), &lpeeled.goal, DEFAULT_BUDGET).0));
                if b.starts_with("<work") || b.starts_with("<overflow") {
                    out.bump("outside_limits_on_logged_program(not judged)");
                    continue;
                }
                if *a != b {
                    let dc = super::c10::diff_class(a, &b);
                    let q = co_qual(g, co);
                    let q = if q.is_empty() && sv != Sv::Slg { env_qual(g, &case.pg.program) } else { q };
                    out.fail(
                        format!("{}:logged-differs:{}{}", sv.name(), dc, if dc.contains("repeated-var") { "" } else { q }),
                        format!("[{}] goal `{}`: `{}` on the original program (through the wrapper), `{}` on the logged program\n--- original\n{}--- logged\n{}", sv.name(), lg.text, a, b, low.text, logged),
                    );
                    continue;
                }
                if filtered || !goal_is_closed(g) || !g.prefix.is_empty() {
                    out.nontrivial.push(hash_of(&(&low.text, &lg.text, sv.name())));
                    if out.sample.is_none() && filtered {
                        out.sample = Some(json!({"original": low.text, "logged": logged, "goal": lg.text, "solver": sv.name(), "answer": a}));
                    }
                }
            }
        }
        out
    }
}
