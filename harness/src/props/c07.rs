//! C07 — associated types normalize to the value of the applicable impl.
use super::common::*;
use crate::drive::*;
use crate::gen::*;
use crate::model::*;
use crate::refsem::*;
use crate::runner::*;
use crate::tape::Tape;
use serde_json::{json, Value};

pub struct C07;

/// F-assoc: traits with one associated type, coherent impls by construction (pairwise non-unifiable headers)
/// index of the associated type `Out` in the trait's declaration
pub fn out_idx(p: &Program, tr: usize) -> usize {
    p.traits[tr].assocs.iter().position(|a| a.0 == "Out").unwrap_or(0)
}

pub fn gen_assoc_program(t: &mut Tape) -> Program {
    let mut p = Program::default();
    p.assoc_values_reversed = t.chance(40);
    for name in ["A", "B", "C"] {
        p.ctors.push(new_ctor(name, 0));
    }
    p.ctors.push(new_ctor("V", 1));
    p.ctors.push(new_ctor("W", 1));
    let (v, w) = (3usize, 4usize);
    // trait 0: helper with facts; traits 1..: traits with an associated type
    p.traits.push(new_trait("Foo", 0, TraitKind::Inductive));
    let na = 1 + t.choose(2);
    for name in ["Tr", "Ur"].iter().take(na) {
        let mut tr = new_trait(name, 0, TraitKind::Inductive);
        tr.assocs = vec![("Out".to_string(), if t.chance(25) { vec![0] } else { vec![] })];
        // a second associated type declared *before* `Out` (40 %): values have to be found by name, not by position
        if t.chance(40) {
            tr.assocs.insert(0, ("Aux".to_string(), vec![]));
        }
        p.traits.push(tr);
    }
    for c in 0..3 {
        if t.chance(55) {
            p.impls.push(ImplDef { nparams: 0, head: TRef { tr: 0, args: vec![Ty::Adt(c, vec![])] }, wcs: vec![], positive: true, values: vec![], upstream: false });
        }
    }
    if t.chance(40) {
        p.impls.push(ImplDef { nparams: 1, head: TRef { tr: 0, args: vec![Ty::Adt(v, vec![Ty::Param(0)])] }, wcs: if t.chance(50) { vec![TRef { tr: 0, args: vec![Ty::Param(0)] }] } else { vec![] }, positive: true, values: vec![], upstream: false });
    }
    for tr in 1..=na {
        // candidate headers, pairwise non-unifiable: A, B, C, V<P0> | (V<A>, V<B>), W<P0> | W<V<P0>>
        let mut heads: Vec<(usize, Ty)> = vec![];
        for c in 0..3 {
            if t.chance(60) {
                heads.push((0, Ty::Adt(c, vec![])));
            }
        }
        match t.choose(3) {
            0 => heads.push((1, Ty::Adt(v, vec![Ty::Param(0)]))),
            1 => {
                heads.push((0, Ty::Adt(v, vec![Ty::Adt(0, vec![])])));
                if t.chance(60) {
                    heads.push((0, Ty::Adt(v, vec![Ty::Adt(1, vec![])])));
                }
            }
            _ => {}
        }
        match t.choose(3) {
            0 => heads.push((1, Ty::Adt(w, vec![Ty::Param(0)]))),
            1 => heads.push((1, Ty::Adt(w, vec![Ty::Adt(v, vec![Ty::Param(0)])]))),
            _ => {}
        }
        for (np, head) in heads {
            let params: Vec<Ty> = (0..np).map(Ty::Param).collect();
            let mut wcs = vec![];
            if np > 0 && t.chance(40) {
                wcs.push(TRef { tr: if t.chance(60) { 0 } else { tr }, args: vec![Ty::Param(0)] });
            }
            // value: ground, over the parameter, nested, or a projection of the parameter
            let value = match t.choose(7) {
                0 => Ty::Adt(t.choose(3), vec![]),
                6 if np > 0 => {
                    // a projection of the parameter nested inside a constructor: the value itself has to be normalized
                    let other = 1 + t.choose(na);
                    if !wcs.iter().any(|wc: &TRef| wc.tr == other) {
                        wcs.push(TRef { tr: other, args: vec![Ty::Param(0)] });
                    }
                    Ty::Adt(if t.chance(50) { v } else { w }, vec![Ty::Proj(other, out_idx(&p, other), vec![Ty::Param(0)])])
                }
                1 if np > 0 => Ty::Param(0),
                2 if np > 0 => Ty::Adt(v, vec![Ty::Param(0)]),
                3 if np > 0 => {
                    // needs P0: OtherTrait to be meaningful; add the where-clause so the program stays sensible
                    let other = 1 + t.choose(na);
                    if !wcs.iter().any(|wc: &TRef| wc.tr == other) {
                        wcs.push(TRef { tr: other, args: vec![Ty::Param(0)] });
                    }
                    Ty::Proj(other, out_idx(&p, other), vec![Ty::Param(0)])
                }
                4 => Ty::Adt(w, vec![Ty::Adt(t.choose(3), vec![])]),
                _ => gen_ty(t, &p, &params, 2),
            };
            let values = if p.traits[tr].assocs.len() == 2 { vec![Ty::Adt(t.choose(3), vec![]), value] } else { vec![value] };
            p.impls.push(ImplDef { nparams: np, head: TRef { tr, args: vec![head] }, wcs, positive: true, values, upstream: false });
        }
    }
    let _ = params_unused;
    p
}
#[allow(non_upper_case_globals)]
const params_unused: () = ();

#[derive(Debug, Clone, PartialEq)]
pub enum Norm {
    Value(Ty),
    NoImpl,
    Unknown,
}

/// independent lookup: the unique impl whose header matches, where-clauses checked by the ground
/// evaluator, value instantiated and recursively normalized
pub fn normalize(p: &Program, ge: &mut GoalEval, tr: usize, self_ty: &Ty, hyps: &Vec<Hyp>, depth: usize) -> Norm {
    if depth == 0 || self_ty.has_proj() {
        return Norm::Unknown;
    }
    let mut found: Option<Norm> = None;
    for im in &p.impls {
        if im.head.tr != tr || !im.positive {
            continue;
        }
        let mut b = vec![None; im.nparams];
        if !match_params(&im.head.args[0], self_ty, &mut b) {
            continue;
        }
        if b.iter().any(|x| x.is_none()) {
            return Norm::Unknown;
        }
        let s: Vec<Ty> = b.into_iter().map(|x| x.unwrap()).collect();
        let mut ok = Tri::True;
        for wc in &im.wcs {
            ok = ok.and(ge.holds(&wc.subst_params(&s), hyps));
        }
        match ok {
            Tri::False => continue,
            Tri::Unknown => return Norm::Unknown,
            Tri::True => {}
        }
        let v = im.values[out_idx(p, tr)].subst_params(&s);
        let r = norm_ty(p, ge, &v, hyps, depth - 1);
        if found.is_some() {
            return Norm::Unknown; // not coherent after all: no opinion
        }
        found = Some(r);
    }
    found.unwrap_or(Norm::NoImpl)
}

fn norm_ty(p: &Program, ge: &mut GoalEval, t: &Ty, hyps: &Vec<Hyp>, depth: usize) -> Norm {
    match t {
        Ty::Proj(tr, _, args) => match norm_ty(p, ge, &args[0], hyps, depth) {
            Norm::Value(s) => normalize(p, ge, *tr, &s, hyps, depth),
            // an inner projection without applicable impl stays a placeholder type: outside the oracle's scope
            _ => Norm::Unknown,
        },
        Ty::Adt(c, a) => {
            let mut out = vec![];
            for x in a {
                match norm_ty(p, ge, x, hyps, depth) {
                    Norm::Value(v) => out.push(v),
                    _ => return Norm::Unknown,
                }
            }
            Norm::Value(Ty::Adt(*c, out))
        }
        o => Norm::Value(o.clone()),
    }
}

fn gen_assoc_goal(t: &mut Tape, p: &Program) -> (Goal, usize, Ty, u8) {
    // returns (goal, trait, self type (with QVar for forall variables), form)
    let na = p.traits.len() - 1;
    let tr = 1 + t.choose(na);
    let with_forall = t.chance(30);
    let leaves: Vec<Ty> = if with_forall { vec![Ty::QVar(0)] } else { vec![] };
    // self type: often an impl header instance
    let heads: Vec<&ImplDef> = p.impls.iter().filter(|im| im.head.tr == tr).collect();
    let self_ty = if !heads.is_empty() && t.chance(75) {
        let im = heads[t.choose(heads.len())];
        let inst: Vec<Ty> = (0..im.nparams).map(|_| if with_forall && t.chance(60) { Ty::QVar(0) } else { gen_ty(t, p, &leaves, 1) }).collect();
        im.head.args[0].subst_params(&inst)
    } else {
        gen_ty(t, p, &leaves, 2)
    };
    let base = if with_forall { 1 } else { 0 };
    let mut prefix = vec![];
    if with_forall {
        prefix.push(Prefix::Forall(vec![0]));
        if t.chance(40) {
            prefix.push(Prefix::If(vec![Hyp::Holds(TRef { tr: 0, args: vec![Ty::QVar(0)] })]));
        }
    }
    let form = t.choose(4) as u8;
    let oi = out_idx(p, tr);
    let proj = Ty::Proj(tr, oi, vec![self_ty.clone()]);
    let goal = match form {
        0 | 1 => {
            prefix.push(Prefix::Exists(vec![base]));
            if form == 0 {
                Goal { prefix, body: vec![Lit::Normalize(proj, Ty::QVar(base))] }
            } else {
                Goal { prefix, body: vec![Lit::ProjEq(TRef { tr, args: vec![self_ty.clone()] }, oi, Ty::QVar(base))] }
            }
        }
        _ => {
            // concrete candidate: filled in by the caller (right or wrong value)
            Goal { prefix, body: vec![Lit::ProjEq(TRef { tr, args: vec![self_ty.clone()] }, oi, Ty::Adt(0, vec![]))] }
        }
    };
    (goal, tr, self_ty, form)
}

fn eval_self(goal: &Goal, self_ty: &Ty) -> (Ty, Vec<Hyp>) {
    // placeholders for forall variables, hypotheses instantiated
    let l = layout(goal);
    let nv = goal_num_vars(goal);
    let mut asg: Vec<Option<Ty>> = vec![None; nv.max(2)];
    for (v, ph) in &l.phs {
        asg[*v] = Some(ph.clone());
    }
    for (v, _) in &l.exvars {
        asg[*v] = Some(Ty::CVar(0));
    }
    let hyps = l.hyps.iter().map(|h| h.subst_qvars(&asg)).collect();
    (self_ty.subst_qvars(&asg), hyps)
}

impl Property for C07 {
    type Case = PG;
    fn id(&self) -> &'static str {
        "C07"
    }
    fn rule(&self) -> String {
        "case = generated F-assoc program — traits with an associated type (with or without a bound), coherent impls by construction (pairwise non-unifiable headers: distinct constructors or distinct ground arguments, generic and nested headers, where-clauses), values that are ground, mention the impl parameter, nest it under a constructor or are projections of it — with 5 goals: exists<U> { Normalize(<X as Tr>::Out -> U) }, X: Tr<Out = U> with U unknown, X: Tr<Out = Y> with Y the right value or a wrong concrete type, and forall<T> variants (optionally under a hypothesis). Every goal is also solved through chalk-integration's ChalkDatabase (its own RustIrDatabase implementation) and must get the same answer as with the lowered Program. Oracle: an independent lookup (the unique impl whose header matches one-way, where-clauses checked by the ground evaluator, value instantiated and recursively normalized): Unique answer => its type is exactly that value; 'No possible solution' => no impl applies (or the concrete candidate differs from the value); definite guidance => the value is an instance; a wrong concrete candidate is never Unique; Ambiguous is accepted (SLG reports the placeholder fallback as a second answer). Non-trivial = judged goal where an impl applies and its value mentions an impl parameter or a nested projection; distinct by hash of (program, goal, solver).".into()
    }
    fn assumptions(&self) -> Vec<String> {
        vec!["cases whose inner projection has no applicable impl are out of scope (counted)".into(), "programs are coherent by construction, not checked by chalk's coherence pass".into()]
    }
    fn cases_per_shard(&self, tier: Tier) -> u32 {
        tier.pick(200, 6000)
    }
    fn decode(&self, t: &mut Tape, _tier: Tier) -> PG {
        let program = gen_assoc_program(t);
        let mut goals = vec![];
        for _ in 0..5 {
            let (mut g, tr, self_ty, form) = gen_assoc_goal(t, &program);
            if form >= 2 {
                // right or wrong concrete candidate
                let (st, hyps) = eval_self(&g, &self_ty);
                let mut ge = GoalEval::new(&program);
                let n = normalize(&program, &mut ge, tr, &st, &hyps, 6);
                let cand = match (&n, form) {
                    (Norm::Value(v), 2) if !v.has_ph() => v.clone(),
                    _ => [Ty::Adt(0, vec![]), Ty::Adt(1, vec![]), Ty::Adt(3, vec![Ty::Adt(2, vec![])])][t.choose(3)].clone(),
                };
                if let Lit::ProjEq(_, _, y) = &mut g.body[0] {
                    *y = cand;
                }
            }
            goals.push(g);
        }
        PG { program, goals }
    }
    fn describe(&self, case: &PG) -> Value {
        case.describe()
    }
    fn shrink(&self, case: &PG) -> Vec<PG> {
        case.shrink()
    }
    fn run(&self, case: &PG, _tier: Tier) -> CaseOut {
        let mut out = CaseOut::default();
        let low = match lower_pg(case, &mut out) {
            Some(l) => l,
            None => return out,
        };
        let names = Names { program: &low.program, model: &case.program };
        with_program(&low, || {
            for (gi, g) in case.goals.iter().enumerate() {
                let lg = match &low.goals[gi] {
                    Some(x) => x,
                    None => continue,
                };
                let (tr, self_q, cand): (usize, Ty, Option<Ty>) = match &g.body[0] {
                    Lit::Normalize(Ty::Proj(tr, _, a), _) => (*tr, a[0].clone(), None),
                    Lit::ProjEq(t, _, y) => (t.tr, t.args[0].clone(), if y.has_qvar() { None } else { Some(y.clone()) }),
                    _ => continue,
                };
                let (self_ty, hyps) = eval_self(g, &self_q);
                let mut ge = GoalEval::new(&case.program);
                let expected = normalize(&case.program, &mut ge, tr, &self_ty, &hyps, 6);
                if expected == Norm::Unknown {
                    out.bump("oracle_unknown(not judged)");
                    continue;
                }
                for sv in Sv::BOTH {
                    let sol = match solve_judged(&low, lg, sv, &mut out) {
                        Some(s) => s,
                        None => continue,
                    };
                    let rendered = render(&sol);
                    // the same goal through chalk-integration's query database (ChalkDatabase implements RustIrDatabase itself,
                    // next to Program): both implementations must serve the same program
                    {
                        let db = chalk_integration::db::ChalkDatabase::with(&low.text, sv.choice());
                        let (r, _) = guarded(DEFAULT_BUDGET, || db.solve(&lg.peeled.goal));
                        match r {
                            Run::Done(s2) => {
                                let r2 = render(&s2);
                                if r2 != rendered {
                                    out.fail(format!("{}:database-implementations-disagree", sv.name()), format!("[{}] goal `{}`: `{}` with the lowered Program as database, `{}` through ChalkDatabase\n{}", sv.name(), lg.text, rendered, r2, low.text));
                                }
                            }
                            Run::Panic(m) => out.fail(format!("{}:panic-through-chalk-database:{}", sv.name(), m), format!("[{}] goal `{}` panics through ChalkDatabase: {}\n{}", sv.name(), lg.text, m, low.text)),
                            _ => {}
                        }
                    }
                    let ctx = |msg: String| format!("[{}] {}\n{}goal: {}\nanswer: {}\nreference: {:?}", sv.name(), msg, low.text, lg.text, rendered, expected);
                    let ans = names.convert(&lg.peeled, &sol);
                    let pr = Printer { p: &case.program, self_name: None };
                    match (&cand, &expected) {
                        // unknown result type
                        (None, exp) => match (&ans, exp) {
                            (Ok(Ans::Unique(s, _)), Norm::Value(v)) => {
                                if s.len() != 1 || &s[0] != v {
                                    out.fail(format!("{}:unique-is-not-the-impl-value", sv.name()), ctx(format!("the answer's type is not the value `{}` of the applicable impl", pr.ty(v))));
                                    continue;
                                }
                            }
                            (Ok(Ans::Unique(..)), Norm::NoImpl) if matches!(g.body[0], Lit::Normalize(..)) => {
                                out.fail(format!("{}:unique-although-no-impl-applies", sv.name()), ctx("no impl applies, the normalization goal must have no solution".into()));
                                continue;
                            }
                            (Ok(Ans::None), Norm::Value(v)) => {
                                out.fail(format!("{}:none-although-impl-applies", sv.name()), ctx(format!("an impl applies (value `{}`) but the answer is 'No possible solution'", pr.ty(v))));
                                continue;
                            }
                            (Ok(Ans::Definite(s, cu)), Norm::Value(v)) => {
                                if s.len() == 1 && !v.has_ph() && !instance_of(&[v.clone()], s, cu) {
                                    out.fail(format!("{}:definite-guidance-excludes-the-value", sv.name()), ctx(format!("the value `{}` is not an instance of the definite guidance", pr.ty(v))));
                                    continue;
                                }
                            }
                            (Err(_), Norm::Value(_)) if rendered.starts_with("Unique") => {
                                out.fail(format!("{}:unique-is-not-the-impl-value", sv.name()), ctx("the unique answer is not the (alias-free) value of the applicable impl".into()));
                                continue;
                            }
                            _ => {}
                        },
                        // concrete candidate
                        (Some(y), Norm::Value(v)) => {
                            let right = y == v;
                            if !right && rendered.starts_with("Unique") {
                                out.fail(format!("{}:wrong-candidate-accepted", sv.name()), ctx(format!("`{}` is not the value `{}` but the equality goal is Unique", pr.ty(y), pr.ty(v))));
                                continue;
                            }
                            if right && rendered.starts_with("No possible") {
                                out.fail(format!("{}:right-candidate-rejected", sv.name()), ctx(format!("`{}` is the value of the applicable impl but the answer is 'No possible solution'", pr.ty(y))));
                                continue;
                            }
                        }
                        (Some(_), _) => {}
                    }
                    out.bump(&format!("judged:{}", match &expected { Norm::Value(_) => "impl-applies", _ => "no-impl" }));
                    if let Norm::Value(_) = &expected {
                        // which impl applied? non-trivial if its value mentions a parameter or a projection
                        let interesting = case.program.impls.iter().any(|im| {
                            im.head.tr == tr && {
                                let mut b = vec![None; im.nparams];
                                match_params(&im.head.args[0], &self_ty, &mut b) && im.values.get(0).map(|v| v.has_param() || v.has_proj()).unwrap_or(false)
                            }
                        });
                        if interesting {
                            out.nontrivial.push(hash_of(&(&low.text, &lg.text, sv.name())));
                            if out.sample.is_none() {
                                out.sample = Some(json!({"program": low.text, "goal": lg.text, "solver": sv.name(), "answer": rendered, "reference_value": format!("{:?}", expected)}));
                            }
                        }
                    }
                }
            }
        });
        out
    }
}
