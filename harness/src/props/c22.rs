//! C22 — printing a program and reparsing it gives back an equivalent program.
use crate::drive::catch;
use crate::gen::*;
use crate::model::print_program;
use crate::runner::*;
use crate::tape::Tape;
use chalk_integration::interner::ChalkIr;
use chalk_integration::lowering::Lower;
use chalk_integration::program::Program;
use chalk_integration::tls;
use chalk_ir::fold::{FallibleTypeFolder, TypeFoldable, TypeSuperFoldable};
use chalk_ir::*;
use chalk_solve::display::{write_items, WriterState};
use chalk_solve::logging_db::RecordedItemId;
use chalk_solve::rust_ir::*;
use chalk_solve::split::Split;
use serde::{Deserialize, Serialize};
use serde_json::{json, Value};
use std::sync::Arc;

pub struct C22;

#[derive(Clone, Debug, Serialize, Deserialize)]
pub struct Case {
    pub text: String,
    pub origin: String,
}

// ---------------------------------------------------------------------------------------------------------------
// F-print: a text generator for lowerable programs that uses every feature the writer has to express
// ---------------------------------------------------------------------------------------------------------------

#[derive(Clone, Copy, Debug, PartialEq)]
pub enum PK {
    Ty,
    Lt,
    Const,
}

#[derive(Clone, Debug)]
struct TraitSig {
    name: String,
    params: Vec<PK>,
    assocs: Vec<(String, Vec<PK>)>,
    auto: bool,
}

#[derive(Clone, Debug, Default)]
struct Syms {
    adts: Vec<(String, Vec<PK>)>,
    traits: Vec<TraitSig>,
    opaques: Vec<(String, Vec<PK>)>,
    fndefs: Vec<(String, Vec<PK>)>,
    coroutines: Vec<(String, Vec<PK>)>,
}

#[derive(Clone, Debug, Default)]
struct Scope {
    tys: Vec<String>,
    lts: Vec<String>,
    consts: Vec<String>,
    fresh: usize,
}

impl Scope {
    fn fresh_lt(&mut self) -> String {
        self.fresh += 1;
        format!("'x{}", self.fresh)
    }
    fn fresh_ty(&mut self) -> String {
        self.fresh += 1;
        format!("X{}", self.fresh)
    }
}

const SCALARS: &[&str] = &["u8", "u32", "usize", "i8", "i64", "isize", "u128", "bool", "char", "f32", "f64"];

fn gen_params(t: &mut Tape, max: usize) -> Vec<PK> {
    let n = t.choose(max + 1);
    let mut v: Vec<PK> = (0..n)
        .map(|_| match t.choose(6) {
            0 | 1 => PK::Lt,
            2 => PK::Const,
            _ => PK::Ty,
        })
        .collect();
    // the parser accepts any order; keep lifetimes first like most sources, but not always
    if !t.chance(20) {
        v.sort_by_key(|k| match k {
            PK::Lt => 0,
            PK::Ty => 1,
            PK::Const => 2,
        });
    }
    v
}

/// declares the parameters in a scope and returns the `<...>` text
fn declare(scope: &mut Scope, params: &[PK], prefix: &str) -> String {
    if params.is_empty() {
        return String::new();
    }
    let mut parts = vec![];
    for (i, k) in params.iter().enumerate() {
        match k {
            PK::Ty => {
                let n = format!("{}{}", prefix, i);
                scope.tys.push(n.clone());
                parts.push(n);
            }
            PK::Lt => {
                let n = format!("'{}{}", prefix.to_lowercase(), i);
                scope.lts.push(n.clone());
                parts.push(n);
            }
            PK::Const => {
                let n = format!("{}{}", prefix, i);
                scope.consts.push(n.clone());
                parts.push(format!("const {}", n));
            }
        }
    }
    format!("<{}>", parts.join(", "))
}

struct G<'a, 'b> {
    t: &'a mut Tape<'b>,
    s: Syms,
    /// allow `'erased`
    erased: bool,
}

impl<'a, 'b> G<'a, 'b> {
    fn lt(&mut self, sc: &Scope) -> String {
        let k = self.t.choose(10);
        if !sc.lts.is_empty() && k < 6 {
            return sc.lts[self.t.choose(sc.lts.len())].clone();
        }
        if self.erased && k == 9 {
            return "'erased".into();
        }
        "'static".into()
    }
    fn konst(&mut self, sc: &Scope) -> String {
        if !sc.consts.is_empty() && self.t.chance(60) {
            return sc.consts[self.t.choose(sc.consts.len())].clone();
        }
        ["0", "3", "7", "4294967295"][self.t.choose(4)].into()
    }
    fn args(&mut self, sc: &mut Scope, kinds: &[PK], d: usize) -> Vec<String> {
        kinds
            .iter()
            .map(|k| match k {
                PK::Ty => self.ty(sc, d),
                PK::Lt => self.lt(sc),
                PK::Const => self.konst(sc),
            })
            .collect()
    }
    fn angle(v: Vec<String>) -> String {
        if v.is_empty() {
            String::new()
        } else {
            format!("<{}>", v.join(", "))
        }
    }
    /// `Trait<args>` (no self), optionally with an associated type equality
    fn bound(&mut self, sc: &mut Scope, d: usize, allow_eq: bool, no_auto: bool) -> Option<String> {
        let cands: Vec<usize> = (0..self.s.traits.len()).filter(|i| !(no_auto && self.s.traits[*i].auto)).collect();
        if cands.is_empty() {
            return None;
        }
        let tr = self.s.traits[cands[self.t.choose(cands.len())]].clone();
        let mut quant = String::new();
        let mut sc2 = sc.clone();
        if tr.params.contains(&PK::Lt) && self.t.chance(30) {
            let l = sc2.fresh_lt();
            quant = format!("forall<{}> ", l);
            sc2.lts.push(l);
        }
        let mut a = self.args(&mut sc2, &tr.params, d);
        if allow_eq && !tr.assocs.is_empty() && self.t.chance(15) {
            let (an, ak) = tr.assocs[self.t.choose(tr.assocs.len())].clone();
            let aa = self.args(&mut sc2, &ak, d);
            let v = self.ty(&mut sc2, d);
            a.push(format!("{}{} = {}", an, Self::angle(aa), v));
        }
        sc.fresh = sc2.fresh;
        Some(format!("{}{}{}", quant, tr.name, Self::angle(a)))
    }
    fn ty(&mut self, sc: &mut Scope, d: usize) -> String {
        let leaf = d == 0 || self.t.chance(35);
        if leaf {
            let k = self.t.choose(10);
            if !sc.tys.is_empty() && k < 5 {
                return sc.tys[self.t.choose(sc.tys.len())].clone();
            }
            return match k {
                5 => "str".into(),
                6 => "!".into(),
                7 => "()".into(),
                _ => SCALARS[self.t.choose(SCALARS.len())].into(),
            };
        }
        let d = d - 1;
        match self.t.choose(16) {
            0 | 1 | 2 => {
                if self.s.adts.is_empty() {
                    return "u8".into();
                }
                let (n, k) = self.s.adts[self.t.choose(self.s.adts.len())].clone();
                let a = self.args(sc, &k, d);
                format!("{}{}", n, Self::angle(a))
            }
            3 => {
                let l = self.lt(sc);
                let m = if self.t.chance(40) { "mut " } else { "" };
                format!("&{} {}{}", l, m, self.ty(sc, d))
            }
            4 => format!("*{} {}", if self.t.chance(50) { "const" } else { "mut" }, self.ty(sc, d)),
            5 => format!("[{}]", self.ty(sc, d)),
            6 => {
                let e = self.ty(sc, d);
                format!("[{}; {}]", e, self.konst(sc))
            }
            7 => {
                let n = 1 + self.t.choose(3);
                let v: Vec<String> = (0..n).map(|_| self.ty(sc, d)).collect();
                if n == 1 {
                    format!("({},)", v[0])
                } else {
                    format!("({})", v.join(", "))
                }
            }
            8 | 9 => {
                // fn pointer
                let mut sc2 = sc.clone();
                let mut pre = String::new();
                if self.t.chance(40) {
                    let n = 1 + self.t.choose(2);
                    let ls: Vec<String> = (0..n).map(|_| sc2.fresh_lt()).collect();
                    pre = format!("for<{}> ", ls.join(", "));
                    sc2.lts.extend(ls);
                }
                if self.t.chance(25) {
                    pre.push_str("unsafe ");
                }
                if self.t.chance(25) {
                    pre.push_str(if self.t.chance(50) { "extern \"C\" " } else { "extern \"Rust\" " });
                }
                let n = self.t.choose(3);
                let mut v: Vec<String> = (0..n).map(|_| self.ty(&mut sc2, d)).collect();
                if self.t.chance(15) {
                    v.push("...".into());
                }
                let ret = if self.t.chance(60) { format!(" -> {}", self.ty(&mut sc2, d)) } else { String::new() };
                sc.fresh = sc2.fresh;
                format!("{}fn({}){}", pre, v.join(", "), ret)
            }
            10 | 11 => {
                let n = 1 + self.t.choose(2);
                let mut bs = vec![];
                for _ in 0..n {
                    if let Some(b) = self.bound(sc, d, true, false) {
                        bs.push(b);
                    }
                }
                if bs.is_empty() {
                    return "u8".into();
                }
                let l = self.lt(sc);
                format!("dyn {} + {}", bs.join(" + "), l)
            }
            12 | 13 => {
                // projection
                let cands: Vec<usize> = (0..self.s.traits.len()).filter(|i| !self.s.traits[*i].assocs.is_empty()).collect();
                if cands.is_empty() {
                    return "u8".into();
                }
                let tr = self.s.traits[cands[self.t.choose(cands.len())]].clone();
                let (an, ak) = tr.assocs[self.t.choose(tr.assocs.len())].clone();
                let sf = self.ty(sc, d);
                let ta = self.args(sc, &tr.params, d);
                let aa = self.args(sc, &ak, d);
                format!("<{} as {}{}>::{}{}", sf, tr.name, Self::angle(ta), an, Self::angle(aa))
            }
            14 => {
                if self.s.opaques.is_empty() {
                    return "u8".into();
                }
                let (n, k) = self.s.opaques[self.t.choose(self.s.opaques.len())].clone();
                let a = self.args(sc, &k, d);
                format!("{}{}", n, Self::angle(a))
            }
            _ => {
                // (fn-def and coroutine types are not generated: the writer prints the placeholder `<fn_def>` for them and
                // tests/display marks them unsupported)
                let n = 2 + self.t.choose(2);
                let v: Vec<String> = (0..n).map(|_| self.ty(sc, d)).collect();
                format!("({})", v.join(", "))
            }
        }
    }
    fn where_clause(&mut self, sc: &mut Scope) -> Option<String> {
        match self.t.choose(10) {
            0 if sc.lts.len() >= 1 => {
                let a = self.lt(sc);
                let b = self.lt(sc);
                Some(format!("{}: {}", a, b))
            }
            1 => {
                let ty = self.ty(sc, 1);
                let l = self.lt(sc);
                Some(format!("{}: {}", ty, l))
            }
            2 => {
                // quantified over a fresh lifetime or type
                let mut sc2 = sc.clone();
                let q = if self.t.chance(70) {
                    let l = sc2.fresh_lt();
                    sc2.lts.push(l.clone());
                    l
                } else {
                    let x = sc2.fresh_ty();
                    sc2.tys.push(x.clone());
                    x
                };
                let ty = self.ty(&mut sc2, 2);
                let b = self.bound(&mut sc2, 1, true, true)?;
                sc.fresh = sc2.fresh;
                if b.starts_with("forall") {
                    return None;
                }
                Some(format!("forall<{}> {}: {}", q, ty, b))
            }
            _ => {
                let ty = self.ty(sc, 2);
                let b = self.bound(sc, 1, true, true)?;
                if b.starts_with("forall") {
                    // `T: forall<'a> Tr<'a>` is not where-clause syntax; write it the other way round
                    let rest = b.splitn(2, "> ").collect::<Vec<_>>();
                    return Some(format!("{}> {}: {}", rest[0], ty, rest[1]));
                }
                Some(format!("{}: {}", ty, b))
            }
        }
    }
    fn where_clauses(&mut self, sc: &mut Scope, max: usize) -> String {
        let n = self.t.choose(max + 1);
        let v: Vec<String> = (0..n).filter_map(|_| self.where_clause(sc)).collect();
        if v.is_empty() {
            String::new()
        } else {
            format!(" where {}", v.join(", "))
        }
    }
    fn inline_bounds(&mut self, sc: &mut Scope, max: usize) -> String {
        let n = self.t.choose(max + 1);
        let v: Vec<String> = (0..n).filter_map(|_| self.bound(sc, 1, true, true)).collect();
        if v.is_empty() {
            String::new()
        } else {
            format!(": {}", v.join(" + "))
        }
    }
}

const LANGS: &[&str] = &["sized", "copy", "clone", "drop", "fn_once", "fn_mut", "fn", "unsize", "unpin", "coerce_unsized", "discriminant_kind", "coroutine", "dispatch_from_dyn", "tuple_trait", "pointee_trait", "fn_ptr_trait", "future", "async_fn_once", "async_fn_mut", "async_fn"];

pub fn gen_rich_program(t: &mut Tape) -> String {
    let mut s = Syms::default();
    let nadt = 1 + t.choose(3);
    let ntr = 1 + t.choose(3);
    for i in 0..nadt {
        s.adts.push((format!("S{}", i), gen_params(t, 3)));
    }
    for i in 0..ntr {
        let auto = t.chance(12);
        let params = if auto { vec![] } else { gen_params(t, 2) };
        let na = if auto { 0 } else { t.choose(3) };
        let assocs = (0..na).map(|j| (format!("A{}{}", i, j), if t.chance(30) { gen_params(t, 2) } else { vec![] })).collect();
        s.traits.push(TraitSig { name: format!("Tr{}", i), params, assocs, auto });
    }
    for i in 0..t.choose(3) {
        s.opaques.push((format!("Op{}", i), gen_params(t, 2)));
    }
    for i in 0..t.choose(3) {
        s.fndefs.push((format!("f{}", i), gen_params(t, 2)));
    }
    if t.chance(2) {
        s.coroutines.push(("Gen0".into(), gen_params(t, 1)));
    }
    let erased = t.chance(15);
    let mut g = G { t, s: s.clone(), erased };
    let mut items: Vec<String> = vec![];
    // ADTs
    for (name, params) in &s.adts {
        let mut sc = Scope::default();
        let decl = declare(&mut sc, params, "P");
        let mut attrs = String::new();
        if !params.is_empty() && g.t.chance(30) {
            let vs: Vec<&str> = params.iter().map(|_| ["Invariant", "Covariant", "Contravariant"][g.t.choose(3)]).collect();
            attrs.push_str(&format!("#[variance({})] ", vs.join(", ")));
        }
        if g.t.chance(15) {
            attrs.push_str("#[upstream] ");
        }
        if params.iter().filter(|k| **k == PK::Ty).count() == 1 && params.len() == 1 && g.t.chance(25) {
            attrs.push_str("#[fundamental] ");
        }
        if g.t.chance(12) {
            attrs.push_str("#[phantom_data] ");
        }
        if g.t.chance(12) {
            attrs.push_str("#[one_zst] ");
        }
        let is_enum = g.t.chance(35);
        if g.t.chance(15) {
            attrs.push_str("#[repr(C)] ");
        }
        if g.t.chance(10) {
            attrs.push_str("#[repr(packed)] ");
        }
        if is_enum && g.t.chance(20) {
            attrs.push_str(&format!("#[repr({})] ", ["u8", "i32", "usize", "isize", "u128"][g.t.choose(5)]));
        }
        let wcs = g.where_clauses(&mut sc, 2);
        let body = if is_enum {
            let nv = g.t.choose(4);
            let vs: Vec<String> = (0..nv)
                .map(|i| {
                    let nf = g.t.choose(3);
                    let fs: Vec<String> = (0..nf).map(|_| g.ty(&mut sc, 2)).collect();
                    match g.t.choose(3) {
                        0 if nf > 0 => format!("V{} {{ {} }}", i, fs.iter().enumerate().map(|(j, f)| format!("f{}: {}", j, f)).collect::<Vec<_>>().join(", ")),
                        1 if nf > 0 => format!("V{}({})", i, fs.join(", ")),
                        _ => format!("V{}", i),
                    }
                })
                .collect();
            vs.join(", ")
        } else {
            let nf = g.t.choose(4);
            (0..nf).map(|j| format!("f{}: {}", j, g.ty(&mut sc, 3))).collect::<Vec<_>>().join(", ")
        };
        items.push(format!("{}{} {}{}{} {{ {} }}", attrs, if is_enum { "enum" } else { "struct" }, name, decl, wcs, body));
    }
    // traits
    let mut langs: Vec<&str> = LANGS.to_vec();
    for tr in &s.traits {
        let mut sc = Scope::default();
        sc.tys.push("Self".into());
        let decl = declare(&mut sc, &tr.params, "Q");
        let mut attrs = String::new();
        if tr.auto {
            attrs.push_str("#[auto] ");
        }
        for (a, p) in [("#[marker] ", 10), ("#[upstream] ", 12), ("#[fundamental] ", 10), ("#[non_enumerable] ", 10), ("#[coinductive] ", 10), ("#[object_safe] ", 15)] {
            if g.t.chance(p) {
                attrs.push_str(a);
            }
        }
        if g.t.chance(15) && !langs.is_empty() {
            let l = langs.remove(g.t.choose(langs.len()));
            attrs.push_str(&format!("#[lang({})] ", l));
        }
        let wcs = if tr.auto { String::new() } else { g.where_clauses(&mut sc, 2) };
        let mut body = vec![];
        for (an, ak) in &tr.assocs {
            let mut sc2 = sc.clone();
            let ad = declare(&mut sc2, ak, &format!("{}p", an));
            let b = g.inline_bounds(&mut sc2, 2);
            let w = g.where_clauses(&mut sc2, 1);
            body.push(format!("type {}{}{}{};", an, ad, b, w));
        }
        items.push(format!("{}trait {}{}{} {{ {} }}", attrs, tr.name, decl, wcs, body.join(" ")));
    }
    // opaque types
    for (name, params) in &s.opaques {
        let mut sc = Scope::default();
        let decl = declare(&mut sc, params, "O");
        let b = g.inline_bounds(&mut sc, 2);
        let w = g.where_clauses(&mut sc, 1);
        let hidden = g.ty(&mut sc, 2);
        items.push(format!("opaque type {}{}{}{} = {};", name, decl, b, w, hidden));
    }
    // fn defs
    for (name, params) in &s.fndefs {
        let mut sc = Scope::default();
        let decl = declare(&mut sc, params, "F");
        let mut pre = String::new();
        if !params.is_empty() && g.t.chance(20) {
            let vs: Vec<&str> = params.iter().map(|_| ["Invariant", "Covariant", "Contravariant"][g.t.choose(3)]).collect();
            pre.push_str(&format!("#[variance({})] ", vs.join(", ")));
        }
        if g.t.chance(25) {
            pre.push_str("unsafe ");
        }
        if g.t.chance(25) {
            pre.push_str(if g.t.chance(60) { "extern \"C\" " } else { "extern \"Rust\" " });
        }
        let n = g.t.choose(3);
        let mut a: Vec<String> = (0..n).map(|i| format!("a{}: {}", i, g.ty(&mut sc, 2))).collect();
        if g.t.chance(15) {
            a.push("va: ...".into());
        }
        let ret = if g.t.chance(60) { format!(" -> {}", g.ty(&mut sc, 2)) } else { String::new() };
        let w = g.where_clauses(&mut sc, 2);
        items.push(format!("{}fn {}{}({}){}{};", pre, name, decl, a.join(", "), ret, w));
    }
    // coroutines
    for (name, params) in &s.coroutines {
        let mut sc = Scope::default();
        let decl = declare(&mut sc, params, "C");
        let resume = g.ty(&mut sc, 1);
        let yld = g.ty(&mut sc, 1);
        let ret = if g.t.chance(50) { format!(" -> {}", g.ty(&mut sc, 1)) } else { String::new() };
        let nu = g.t.choose(3);
        let up: Vec<String> = (0..nu).map(|_| g.ty(&mut sc, 1)).collect();
        let mut sc2 = sc.clone();
        let ex = if g.t.chance(50) {
            let l = sc2.fresh_lt();
            sc2.lts.push(l.clone());
            format!(" exists<{}>", l)
        } else {
            String::new()
        };
        let nw = g.t.choose(3);
        let wit: Vec<String> = (0..nw).map(|_| g.ty(&mut sc2, 1)).collect();
        let stat = if g.t.chance(30) { "static " } else { "" };
        items.push(format!("coroutine {}{}{}[resume = {}, yield = {}]{} {{ upvars [{}] witnesses{} [{}] }}", stat, name, decl, resume, yld, ret, up.join("; "), ex, wit.join("; ")));
    }
    // impls
    let nimpl = g.t.choose(5);
    for _ in 0..nimpl {
        let tr = s.traits[g.t.choose(s.traits.len())].clone();
        let params = gen_params(g.t, 3);
        let mut sc = Scope::default();
        let decl = declare(&mut sc, &params, "I");
        let neg = g.t.chance(15);
        let up = if g.t.chance(12) { "#[upstream] " } else { "" };
        let ta = g.args(&mut sc, &tr.params, 2);
        let sf = g.ty(&mut sc, 2);
        let w = g.where_clauses(&mut sc, 2);
        let mut body = vec![];
        if !neg {
            for (an, ak) in &tr.assocs {
                if g.t.chance(5) {
                    continue;
                }
                let mut sc2 = sc.clone();
                let ad = declare(&mut sc2, ak, &format!("{}v", an));
                let v = g.ty(&mut sc2, 2);
                body.push(format!("{}type {}{} = {};", if g.t.chance(8) { "default " } else { "" }, an, ad, v));
            }
        }
        items.push(format!("{}impl{} {}{}{} for {}{} {{ {} }}", up, decl, if neg { "!" } else { "" }, tr.name, G::angle(ta), sf, w, body.join(" ")));
    }
    // item order is part of what the writer has to cope with
    if g.t.chance(50) {
        g.t.shuffle(&mut items);
    }
    items.join("\n")
}

// ---------------------------------------------------------------------------------------------------------------
// the writer under test
// ---------------------------------------------------------------------------------------------------------------

pub fn item_ids(program: &Program) -> Vec<RecordedItemId<ChalkIr>> {
    let mut ids: Vec<(chalk_integration::interner::RawId, RecordedItemId<ChalkIr>)> = vec![];
    ids.extend(program.adt_data.keys().map(|id| (id.0, RecordedItemId::from(*id))));
    ids.extend(program.trait_data.keys().map(|id| (id.0, RecordedItemId::from(*id))));
    ids.extend(program.impl_data.keys().map(|id| (id.0, RecordedItemId::from(*id))));
    ids.extend(program.opaque_ty_data.keys().map(|id| (id.0, RecordedItemId::from(*id))));
    ids.extend(program.fn_def_data.keys().map(|id| (id.0, RecordedItemId::from(*id))));
    ids.extend(program.coroutine_data.keys().map(|id| (id.0, RecordedItemId::from(*id))));
    ids.sort_by_key(|(r, _)| *r);
    ids.into_iter().map(|(_, i)| i).collect()
}

pub fn write_program(program: &Arc<Program>) -> String {
    tls::set_current_program(program, || {
        let mut out = String::new();
        write_items::<_, _, Program, _, _>(&mut out, &WriterState::new(&**program), item_ids(program)).unwrap();
        out
    })
}

pub fn lower_text(text: &str) -> Result<Arc<Program>, String> {
    let p = chalk_parse::parse_program(text).map_err(|e| format!("parse: {}", e))?;
    p.lower().map(Arc::new).map_err(|e| format!("lower: {}", e))
}

// ---------------------------------------------------------------------------------------------------------------
// equivalence: where-clause lists are sets; an associated-type equality bound implies its trait bound
// ---------------------------------------------------------------------------------------------------------------

struct Norm<'p> {
    program: &'p Program,
    /// known finding: the writer has no way to print a function ABI; compare with every ABI reset to "Rust"
    mask_abi: bool,
}

fn qwc_key(q: &QuantifiedWhereClause<ChalkIr>) -> String {
    format!("{:?}", q)
}

impl<'p> Norm<'p> {
    fn list(&self, v: &[QuantifiedWhereClause<ChalkIr>]) -> Vec<QuantifiedWhereClause<ChalkIr>> {
        let mut out: Vec<QuantifiedWhereClause<ChalkIr>> = v.to_vec();
        for q in v {
            if let WhereClause::AliasEq(AliasEq { alias: AliasTy::Projection(proj), .. }) = q.skip_binders() {
                let tr = self.program.trait_ref_from_projection(proj);
                out.push(Binders::new(q.binders.clone(), WhereClause::Implemented(tr)));
            }
        }
        out.sort_by_key(qwc_key);
        out.dedup_by_key(|q| qwc_key(q));
        out
    }
    fn inline_list(&self, v: &[QuantifiedInlineBound<ChalkIr>]) -> Vec<QuantifiedInlineBound<ChalkIr>> {
        let mut out = v.to_vec();
        for q in v {
            if let InlineBound::AliasEqBound(b) = q.skip_binders() {
                out.push(Binders::new(q.binders.clone(), InlineBound::TraitBound(b.trait_bound.clone())));
            }
        }
        out.sort_by_key(|q| format!("{:?}", q));
        out.dedup_by_key(|q| format!("{:?}", q));
        out
    }
    fn fold<T: TypeFoldable<ChalkIr>>(&mut self, x: T) -> T {
        match x.try_fold_with(self, DebruijnIndex::INNERMOST) {
            Ok(v) => v,
            Err(e) => match e {},
        }
    }
}

impl<'p> FallibleTypeFolder<ChalkIr> for Norm<'p> {
    type Error = std::convert::Infallible;
    fn as_dyn(&mut self) -> &mut dyn FallibleTypeFolder<ChalkIr, Error = Self::Error> {
        self
    }
    fn interner(&self) -> ChalkIr {
        ChalkIr
    }
    fn try_fold_ty(&mut self, ty: Ty<ChalkIr>, outer_binder: DebruijnIndex) -> Result<Ty<ChalkIr>, Self::Error> {
        let ty = ty.try_super_fold_with(self.as_dyn(), outer_binder)?;
        if let TyKind::Dyn(d) = ty.kind(ChalkIr) {
            let inner = self.list(d.bounds.skip_binders().as_slice(ChalkIr));
            let bounds = Binders::new(d.bounds.binders.clone(), QuantifiedWhereClauses::from_iter(ChalkIr, inner));
            return Ok(TyKind::Dyn(DynTy { bounds, lifetime: d.lifetime.clone() }).intern(ChalkIr));
        }
        if self.mask_abi {
            if let TyKind::Function(fp) = ty.kind(ChalkIr) {
                let mut fp = fp.clone();
                fp.sig.abi = chalk_integration::interner::ChalkFnAbi::Rust;
                return Ok(TyKind::Function(fp).intern(ChalkIr));
            }
        }
        Ok(ty)
    }
}

pub fn normalize(p: &Program, mask_abi: bool) -> Program {
    let mut out = p.clone();
    let mut n = Norm { program: p, mask_abi };
    for (_, d) in out.adt_data.iter_mut() {
        let b = n.fold(d.binders.clone());
        let b = b.map(|bound| AdtDatumBound { where_clauses: n.list(&bound.where_clauses), variants: bound.variants });
        *d = Arc::new(AdtDatum { binders: b, ..(**d).clone() });
    }
    for (_, d) in out.trait_data.iter_mut() {
        let b = d.binders.clone().map(|bound| TraitDatumBound { where_clauses: n.fold(bound.where_clauses) });
        let b = b.map(|bound| TraitDatumBound { where_clauses: n.list(&bound.where_clauses) });
        *d = Arc::new(TraitDatum { binders: b, ..(**d).clone() });
    }
    for (_, d) in out.impl_data.iter_mut() {
        let b = n.fold(d.binders.clone());
        let b = b.map(|bound| ImplDatumBound { where_clauses: n.list(&bound.where_clauses), trait_ref: bound.trait_ref });
        *d = Arc::new(ImplDatum { binders: b, ..(**d).clone() });
    }
    for (_, d) in out.associated_ty_data.iter_mut() {
        let b = n.fold(d.binders.clone());
        let b = b.map(|bound| AssociatedTyDatumBound { where_clauses: n.list(&bound.where_clauses), bounds: n.inline_list(&bound.bounds) });
        *d = Arc::new(AssociatedTyDatum { binders: b, ..(**d).clone() });
    }
    for (_, d) in out.associated_ty_values.iter_mut() {
        let b = n.fold(d.value.clone());
        *d = Arc::new(AssociatedTyValue { value: b, ..(**d).clone() });
    }
    for (_, d) in out.opaque_ty_data.iter_mut() {
        let b = n.fold(d.bound.clone());
        let b = b.map(|bound| OpaqueTyDatumBound { bounds: bound.bounds.map(|v| n.list(&v)), where_clauses: bound.where_clauses.map(|v| n.list(&v)) });
        *d = Arc::new(OpaqueTyDatum { bound: b, ..(**d).clone() });
    }
    for (_, d) in out.fn_def_data.iter_mut() {
        let b = n.fold(d.binders.clone());
        let b = b.map(|bound| FnDefDatumBound { where_clauses: n.list(&bound.where_clauses), inputs_and_output: bound.inputs_and_output });
        let mut sig = d.sig.clone();
        if mask_abi {
            sig.abi = chalk_integration::interner::ChalkFnAbi::Rust;
        }
        *d = Arc::new(FnDefDatum { binders: b, sig, id: d.id });
    }
    for (_, d) in out.coroutine_data.iter_mut() {
        let b = n.fold(d.input_output.clone());
        *d = Arc::new(CoroutineDatum { input_output: b, ..(**d).clone() });
    }
    for (_, d) in out.coroutine_witness_data.iter_mut() {
        let b = n.fold(d.inner_types.clone());
        *d = Arc::new(CoroutineWitnessDatum { inner_types: b });
    }
    for (_, d) in out.hidden_opaque_types.iter_mut() {
        *d = Arc::new(n.fold((**d).clone()));
    }
    out
}

/// names of the top-level fields of `Program` whose pretty Debug differs (for the signature)
pub fn differing_fields(a: &Program, b: &Program) -> Vec<String> {
    fn split(p: &Program) -> Vec<(String, String)> {
        let s = pretty(p);
        let mut out: Vec<(String, String)> = vec![];
        for line in s.lines() {
            if line.starts_with("    ") && !line.starts_with("     ") && line.contains(':') && line.trim_start().chars().next().map(|c| c.is_ascii_lowercase()).unwrap_or(false) {
                let name = line.trim().split(':').next().unwrap_or("").to_string();
                out.push((name, String::new()));
            }
            if let Some(last) = out.last_mut() {
                last.1.push_str(line);
                last.1.push('\n');
            }
        }
        out
    }
    let (sa, sb) = (split(a), split(b));
    let mut out = vec![];
    for (n, text) in &sa {
        match sb.iter().find(|(m, _)| m == n) {
            Some((_, t2)) if t2 == text => {}
            _ => out.push(n.clone()),
        }
    }
    out
}

/// the first differing line pair of the pretty Debug output, ids and numbers blurred: names the root cause, not the case
fn pretty(p: &Program) -> String {
    let a = Arc::new(p.clone());
    tls::set_current_program(&a, || format!("{:#?}", a))
}

fn diff_class(a: &Program, b: &Program) -> String {
    let (sa, sb) = (pretty(a), pretty(b));
    let (la, lb): (Vec<&str>, Vec<&str>) = (sa.lines().collect(), sb.lines().collect());
    let mut i = 0;
    while i < la.len() && i < lb.len() && la[i] == lb[i] {
        i += 1;
    }
    let blur = |s: &str| -> String {
        let mut out = String::new();
        for ch in s.trim().chars() {
            if ch.is_ascii_digit() {
                if !out.ends_with('N') {
                    out.push('N');
                }
            } else {
                out.push(ch);
            }
        }
        out.chars().take(50).collect()
    };
    // the enclosing top-level field
    let mut field = "";
    for k in (0..i.min(la.len())).rev() {
        let l = la[k];
        if l.starts_with("    ") && !l.starts_with("     ") && l.contains(':') {
            field = l.trim().split(':').next().unwrap_or("");
            break;
        }
    }
    format!("{}:{}|{}", field, blur(la.get(i).copied().unwrap_or("<end>")), blur(lb.get(i).copied().unwrap_or("<end>")))
}

fn first_diff(a: &Program, b: &Program) -> String {
    let (sa, sb) = (pretty(a), pretty(b));
    let (la, lb): (Vec<&str>, Vec<&str>) = (sa.lines().collect(), sb.lines().collect());
    let mut i = 0;
    while i < la.len() && i < lb.len() && la[i] == lb[i] {
        i += 1;
    }
    let from = i.saturating_sub(6);
    let mut out = String::new();
    for k in from..(i + 6) {
        out.push_str(&format!("  {} | {}\n", la.get(k).copied().unwrap_or("<end>"), lb.get(k).copied().unwrap_or("<end>")));
    }
    out
}

/// features the writer has no syntax for (or that make "the same items" ill-defined): the case is out of the domain
pub fn out_of_domain(p: &Program) -> Option<&'static str> {
    if !p.closure_ids.is_empty() {
        return Some("closure");
    }
    if !p.foreign_ty_ids.is_empty() {
        return Some("foreign-type");
    }
    if !p.custom_clauses.is_empty() {
        return Some("custom-clause");
    }
    if !p.coroutine_ids.is_empty() {
        // the writer's coroutine arm is an explicit `unimplemented!()`; the property lists the item kinds it covers
        return Some("coroutine");
    }
    // the same name in two namespaces is renamed by the writer (blessed in tests/display/formatting.rs)
    let mut names: Vec<String> = vec![];
    names.extend(p.adt_ids.keys().map(|k| k.to_string()));
    names.extend(p.trait_ids.keys().map(|k| k.to_string()));
    names.extend(p.opaque_ty_ids.keys().map(|k| k.to_string()));
    names.extend(p.fn_def_ids.keys().map(|k| k.to_string()));
    names.extend(p.coroutine_ids.keys().map(|k| k.to_string()));
    names.extend(p.associated_ty_data.values().map(|d| d.name.to_string()));
    let n = names.len();
    names.sort();
    names.dedup();
    if names.len() != n {
        return Some("name-clash");
    }
    None
}

thread_local! {
    static CORPUS: Vec<String> = {
        // `program { .. }` blocks of /repo/tests that lower
        super::c24::corpus_programs().iter().filter(|t| lower_text(t).is_ok()).cloned().collect()
    };
}

impl Property for C22 {
    type Case = Case;
    fn id(&self) -> &'static str {
        "C22"
    }
    fn rule(&self) -> String {
        "case = one program text that lowers, from (a) F-print, a grammar-directed generator over every item kind the writer can express: structs/enums with #[variance], #[upstream], #[fundamental], #[phantom_data], #[one_zst], #[repr(C|packed|int)], type/lifetime/const parameters in any order, where-clauses (trait bounds, associated-type equality bounds, outlives, forall-quantified), enum variants of all three shapes; traits with every flag and #[lang] attribute, associated types with parameters, inline bounds and where-clauses; opaque types; fn definitions with variance/unsafe/extern ABI/variadic; positive/negative/upstream impls with (default) associated values; types of every kind (refs, raw pointers, slices, arrays with const parameter or literal length, tuples incl. 1-tuples, fn pointers with for<>/unsafe/extern/variadic, dyn with several (quantified, equality) bounds, projections, opaque types, str, !, 'static and 'erased), items in random order; (b) the model generators of the solver checks (Horn, auto-trait, environment, associated-type and built-in fragments); (c) every `program { }` block of /repo/tests that lowers. Programs with closures, coroutines (the writer's coroutine arm is `unimplemented!()`), foreign types, program-level clauses, fn-def types (the writer prints the placeholder `<fn_def>`; tests/display marks them unsupported) or one name used twice (items or associated types: the writer renames, blessed in tests/display/formatting.rs) are outside the domain (counted). Oracle: P0 = lower(text); T1 = write(P0); P1 = lower(T1) must succeed; normalise(P0) == normalise(P1), compared first with every function ABI masked (known finding: ABI dropped) and then unmasked, where normalise sorts and dedups every where-clause / bound list (items, associated types, opaque types, dyn types) and adds the trait bound implied by each associated-type equality bound; T2 = write(P1) and P2 = lower(T2) must equal P1 exactly (Program: Eq, as in tests/display); a second-round difference that normalisation absorbs in a program with an equality bound is the known non-convergence. Non-trivial = in-domain program; distinct by hash of T1.".into()
    }
    fn assumptions(&self) -> Vec<String> {
        vec!["items are written in raw-id order, as tests/display/util.rs does, so item ids are comparable".into()]
    }
    fn cases_per_shard(&self, tier: Tier) -> u32 {
        tier.pick(400, 20000)
    }
    fn tape_len(&self, _tier: Tier) -> usize {
        600
    }
    fn decode(&self, t: &mut Tape, _tier: Tier) -> Case {
        match t.choose(10) {
            0 => {
                let n = CORPUS.with(|c| c.len());
                if n == 0 {
                    return Case { text: gen_rich_program(t), origin: "f-print".into() };
                }
                let i = t.choose(n);
                Case { text: CORPUS.with(|c| c[i].clone()), origin: "repo-tests".into() }
            }
            1 => {
                let cfg = match t.choose(4) {
                    0 => GenCfg::horn(),
                    1 => GenCfg::auto_heavy(),
                    2 => GenCfg::env(),
                    _ => GenCfg::horn_auto(),
                };
                Case { text: print_program(&gen_program(t, &cfg)), origin: "model".into() }
            }
            2 => {
                if t.chance(50) {
                    Case { text: print_program(&super::c07::gen_assoc_program(t)), origin: "model-assoc".into() }
                } else {
                    Case { text: print_program(&super::c08::gen_builtin_program(t)), origin: "model-builtin".into() }
                }
            }
            _ => Case { text: gen_rich_program(t), origin: "f-print".into() },
        }
    }
    fn describe(&self, c: &Case) -> Value {
        json!({"text": c.text, "origin": c.origin})
    }
    fn shrink(&self, c: &Case) -> Vec<Case> {
        // drop one item (line) at a time; F-print emits one item per line
        let lines: Vec<&str> = c.text.lines().collect();
        let mut out = vec![];
        if lines.len() > 1 {
            for i in 0..lines.len() {
                let mut l2 = lines.clone();
                l2.remove(i);
                out.push(Case { text: l2.join("\n"), origin: c.origin.clone() });
            }
        }
        out
    }
    fn run(&self, c: &Case, _tier: Tier) -> CaseOut {
        let mut out = CaseOut::default();
        out.evals = 1;
        out.bump(&format!("origin:{}", c.origin));
        let p0 = match catch(|| lower_text(&c.text)) {
            Ok(Ok(p)) => p,
            Ok(Err(_)) => {
                out.bump("source_does_not_lower");
                return out;
            }
            Err(_) => {
                out.bump("source_panics_in_lowering(C24)");
                return out;
            }
        };
        if let Some(why) = out_of_domain(&p0) {
            out.bump(&format!("out_of_domain:{}", why));
            return out;
        }
        let t1 = match catch(|| write_program(&p0)) {
            Ok(t) => t,
            Err(m) => {
                out.fail(format!("writer-panics:{}", m.chars().take(100).collect::<String>()), format!("writer panicked: {}\nsource:\n{}", m, c.text));
                return out;
            }
        };
        out.nontrivial.push(hash_of(&t1));
        for (k, pat) in [("has_dyn", "dyn "), ("has_projection", " as "), ("has_variance", "#[variance"), ("has_fn_ptr", "fn("), ("has_assoc_eq", " = "), ("has_forall", "forall<"), ("has_const_param", "const "), ("has_erased", "'erased"), ("has_opaque", "opaque type"), ("has_coroutine", "coroutine "), ("has_enum", "enum ")] {
            if c.text.contains(pat) {
                out.bump(k);
            }
        }
        if t1.contains("<fn_def>") {
            // a fn-def type: the writer prints a placeholder (tests/display: "We do not yet support fn def types")
            out.bump("out_of_domain:fn-def-type");
            out.nontrivial.clear();
            return out;
        }
        let p1 = match catch(|| lower_text(&t1)) {
            Ok(Ok(p)) => p,
            Ok(Err(e)) => {
                let class: String = e.split('`').next().unwrap_or("").chars().take(60).collect();
                out.fail(format!("output-does-not-reparse:{}", class.trim()), format!("writer output does not parse/lower: {}\nsource:\n{}\nwritten:\n{}", e, c.text, t1));
                return out;
            }
            Err(m) => {
                out.fail(format!("output-panics-lowering:{}", m.chars().take(80).collect::<String>()), format!("lowering the writer output panicked: {}\nwritten:\n{}", m, t1));
                return out;
            }
        };
        let (n0, n1) = (normalize(&p0, true), normalize(&p1, true));
        if n0 != n1 {
            let fields = differing_fields(&n0, &n1);
            out.fail(format!("not-equivalent:{}", diff_class(&n0, &n1)), format!("reparsed program differs in {:?}\nsource:\n{}\nwritten:\n{}\nfirst difference (original | reparsed):\n{}", fields, c.text, t1, first_diff(&n0, &n1)));
            return out;
        }
        let (n0, n1) = (normalize(&p0, false), normalize(&p1, false));
        if n0 != n1 {
            out.fail("not-equivalent:fn-abi-dropped", format!("the function ABI is lost\nsource:\n{}\nwritten:\n{}\nfirst difference (original | reparsed):\n{}", c.text, t1, first_diff(&n0, &n1)));
        }
        if *p0 != *p1 {
            out.bump("equivalent_but_not_identical");
        }
        // second round must be exact
        let t2 = match catch(|| write_program(&p1)) {
            Ok(t) => t,
            Err(m) => {
                out.fail(format!("writer-panics-second-round:{}", m.chars().take(100).collect::<String>()), format!("writer panicked on the reparsed program: {}\nwritten:\n{}", m, t1));
                return out;
            }
        };
        match catch(|| lower_text(&t2)) {
            Ok(Ok(p2)) => {
                if *p2 != *p1 {
                    let (m1, m2) = (normalize(&p1, false), normalize(&p2, false));
                    let has_eq = pretty(&p1).contains("AliasEq(");
                    if m1 != m2 {
                        out.fail(format!("second-round-not-equivalent:{}", diff_class(&m1, &m2)), format!("second print/reparse changed the program\nfirst output:\n{}\nsecond output:\n{}\nfirst difference:\n{}", t1, t2, first_diff(&m1, &m2)));
                    } else if has_eq {
                        out.fail("second-round-not-exact:assoc-eq-implied-bound-repeated", format!("every print/reparse round adds the trait bound implied by an associated-type equality bound once more\nfirst output:\n{}\nsecond output:\n{}\nfirst difference:\n{}", t1, t2, first_diff(&p1, &p2)));
                    } else {
                        out.fail(format!("second-round-not-exact:{}", diff_class(&p1, &p2)), format!("second print/reparse is equivalent but not identical\nfirst output:\n{}\nsecond output:\n{}\nfirst difference:\n{}", t1, t2, first_diff(&p1, &p2)));
                    }
                }
            }
            Ok(Err(e)) => out.fail("second-round-does-not-reparse", format!("second output does not lower: {}\n{}", e, t2)),
            Err(m) => out.fail(format!("second-round-panics:{}", m.chars().take(80).collect::<String>()), format!("{}\n{}", m, t2)),
        }
        if out.sample.is_none() && c.origin == "f-print" && out.failures.is_empty() {
            out.sample = Some(json!({"source": c.text, "written": t1}));
        }
        out
    }
}
