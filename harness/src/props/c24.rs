//! C24 — parsing and lowering never crash (any text: Ok or Err, never a panic).
use crate::drive::catch;
use crate::runner::*;
use crate::tape::Tape;
use chalk_integration::lowering::{lower_goal, Lower};
use serde::{Deserialize, Serialize};
use serde_json::{json, Value};
use std::sync::OnceLock;

pub struct C24;

#[derive(Clone, Debug, Serialize, Deserialize)]
pub struct Case {
    pub text: String,
    /// how the text was made (for the histogram)
    pub origin: String,
}

pub const TOKENS: &[&str] = &[
    "struct", "enum", "trait", "impl", "for", "where", "type", "fn", "opaque", "extern", "closure", "coroutine", "forall", "exists", "if", "not", "compatible", "dyn", "const", "int", "float", "mut", "unsafe", "default", "self", "static", "upvars", "witnesses", "resume", "yield",
    "{", "}", "(", ")", "[", "]", "<", ">", ",", ";", ":", "::", "=", "->", "+", "-", "!", "&", "*", "#", "\"", "...", "as", ":-", "=>", "_", "@", "$", "'", "//", "/*",
    "Foo", "Bar", "Baz", "S", "T", "U", "A", "Self", "Item", "Assoc", "u32", "i8", "usize", "isize", "u128", "bool", "char", "f32", "f64", "str", "'a", "'b", "'static", "'erased", "'_", "0", "1", "3", "255", "4294967295", "4294967296", "99999999999999999999", "0x10", "1e9",
    "auto", "marker", "upstream", "fundamental", "non_enumerable", "coinductive", "object_safe", "phantom_data", "one_zst", "manually_drop", "lang", "sized", "copy", "clone", "drop", "unsize", "unpin", "coerce_unsized", "fn_once", "fn_mut", "discriminant_kind", "coroutine", "dispatch_from_dyn", "tuple_trait", "pointee_trait", "fn_ptr_trait", "future", "repr", "C", "packed", "variance", "Covariant", "Invariant", "Contravariant",
    "WellFormed", "FromEnv", "Normalize", "IsLocal", "IsUpstream", "IsFullyVisible", "LocalImplAllowed", "Compatible", "DownstreamType", "Reveal", "ObjectSafe", "Subtype", "AliasEq", "InScope",
];

const SEEDS: &[&str] = &[
    "trait Foo {} struct S {} impl Foo for S {}",
    "struct V<T> { f: [T; 3] } trait Foo {} trait Bar<T> where Self: Foo { type X; } impl<T> Bar<T> for V<T> where T: Foo { type X = u32; }",
    "#[auto] trait Send {} struct A<'a, T> { x: &'a T } impl<'a, T> !Send for A<'a, T> {}",
    "trait Tr { type A<'a, U>: Foo where U: Foo; } trait Foo {} opaque type Op<T>: Foo = T; fn f<T>(x: T) -> u32 where T: Foo;",
    "extern type E; #[upstream] #[fundamental] struct Box<T> {} #[lang(sized)] trait Sized {} enum En { A { x: u8 }, B(u8, E), C }",
    "forall<T> { T: Foo if T: Bar } trait Foo {} trait Bar {} closure c<T>(&self, x: T) -> T { T }",
    "struct S<const N> { a: [u8; N] } trait Foo<const N> {} impl<const N> Foo<N> for S<N> {} struct D { d: dyn Foo<3> + 'static }",
    "#[variance(Covariant, Invariant)] struct P<'a, T> {} #[repr(C)] #[repr(packed)] struct R {} #[phantom_data] struct Ph<T> {} #[one_zst] struct Z {}",
    "coroutine gen<T>[resume = (), yield = u32] { upvars [T; ()] witnesses exists<'a> [&'a T] }",
    "trait Iterator { type Item; } struct Vec<T> {} impl<T> Iterator for Vec<T> { type Item = T; } struct Wrap<T> where T: Iterator<Item = u32> { f: <T as Iterator>::Item }",
    "#[non_enumerable] #[object_safe] trait Obj {} #[marker] trait M {} #[coinductive] trait Co {} impl<T> Co for T where T: Co {} unsafe extern \"C\" fn g(x: u8, ...) -> !;",
    "trait Foo {} trait Gat { type A<'a, U>: Foo; type B<T>; } struct S {} struct W<T> where T: Gat, <T as Gat>::B<u8>: Foo { f: <T as Gat>::A<'static, T> } impl Gat for S { type A<'a, U> = &'a U; type B<T> = W<T>; } impl<T> Foo for T where T: Gat<B<T> = S> {}",
    "trait Iter { type Item<'a>; } struct V<T> {} impl<T> Iter for V<T> { type Item<'a> = &'a T; } opaque type It<T>: Iter<Item<'static> = T> = V<T>; fn next<'a, T>(it: &'a V<T>) -> <V<T> as Iter>::Item<'a> where dyn Iter<Item<'a> = u8> + 'a: Iter;",
];

const GOALS: &[&str] = &[
    "S: Foo",
    "forall<T> { if (T: Foo) { exists<U> { T = U, not { U: Bar } } } }",
    "exists<'a, const N, int I> { Normalize(<S as Tr>::A<'a, u8> -> [I; N]) }",
    "Subtype(for<'a> fn(&'a u8) -> u8, fn(&'static u8) -> u8), WellFormed(S), compatible { IsLocal(S) }",
    "forall<'a, 'b> { if ('a: 'b; T: 'a) { &'a T: Foo } }",
    "exists<T> { T: Iterator<Item = u32>, <T as Iterator>::Item = u32, dyn Foo + 'static: Foo }",
    "forall<const N> { [u8; N]: Foo, FromEnv(S: Foo), IsUpstream(S), IsFullyVisible(S), LocalImplAllowed(S: Foo), DownstreamType(S), Reveal, ObjectSafe(Foo) }",
    "forall<'a, T> { exists<U> { S: Tr<A<'a, T> = U>, <S as Tr>::A<'a, u8> = U, Normalize(<S as Tr>::A<'static, T> -> U) } }",
];

fn tokenize(s: &str) -> Vec<String> {
    let mut out: Vec<String> = vec![];
    let mut cur = String::new();
    let chars: Vec<char> = s.chars().collect();
    let mut i = 0;
    while i < chars.len() {
        let ch = chars[i];
        if ch.is_alphanumeric() || ch == '_' || ch == '\'' {
            cur.push(ch);
            i += 1;
            continue;
        }
        if !cur.is_empty() {
            out.push(std::mem::take(&mut cur));
        }
        // multi-character operators stay one token, so that re-joining the tokens with spaces gives back valid text
        let rest: String = chars[i..chars.len().min(i + 3)].iter().collect();
        if let Some(op) = ["...", "::", "->", ":-", "=>"].iter().find(|op| rest.starts_with(**op)) {
            out.push(op.to_string());
            i += op.len();
            continue;
        }
        if !ch.is_whitespace() {
            out.push(ch.to_string());
        }
        i += 1;
    }
    if !cur.is_empty() {
        out.push(cur);
    }
    out
}

/// `program { .. }` and `goal { .. }` blocks cut from /repo/tests (read at run time, so the corpus follows the tree)
fn corpus() -> &'static (Vec<String>, Vec<String>) {
    static C: OnceLock<(Vec<String>, Vec<String>)> = OnceLock::new();
    C.get_or_init(|| {
        let mut programs = vec![];
        let mut goals = vec![];
        let root = std::path::Path::new(env!("CARGO_MANIFEST_DIR")).join("../../repo/tests");
        fn walk(d: &std::path::Path, out: &mut Vec<std::path::PathBuf>) {
            if let Ok(rd) = std::fs::read_dir(d) {
                let mut es: Vec<_> = rd.filter_map(|e| e.ok()).map(|e| e.path()).collect();
                es.sort();
                for p in es {
                    if p.is_dir() {
                        walk(&p, out)
                    } else if p.extension().map(|x| x == "rs").unwrap_or(false) {
                        out.push(p)
                    }
                }
            }
        }
        let mut files = vec![];
        walk(&root, &mut files);
        for f in files {
            let text = match std::fs::read_to_string(&f) {
                Ok(t) => t,
                Err(_) => continue,
            };
            for (kw, out) in [("program {", &mut programs), ("goal {", &mut goals)] {
                let mut from = 0;
                while let Some(i) = text[from..].find(kw) {
                    let start = from + i + kw.len();
                    let mut depth = 1;
                    let mut end = start;
                    for (j, ch) in text[start..].char_indices() {
                        match ch {
                            '{' => depth += 1,
                            '}' => {
                                depth -= 1;
                                if depth == 0 {
                                    end = start + j;
                                    break;
                                }
                            }
                            _ => {}
                        }
                    }
                    if end > start && end - start < 3000 {
                        out.push(text[start..end].to_string());
                    }
                    from = end.max(start);
                }
            }
        }
        (programs, goals)
    })
}

/// seed corpus and dictionary for the coverage-guided stage (tools/fuzz_c24.sh): the hand-written seeds, every block
/// cut from /repo/tests, and the token vocabulary
pub fn dump_corpus(dir: &std::path::Path) -> std::io::Result<usize> {
    std::fs::create_dir_all(dir.join("corpus"))?;
    let (cp, cg) = corpus();
    let mut n = 0;
    for text in SEEDS.iter().map(|s| s.to_string()).chain(GOALS.iter().map(|s| s.to_string())).chain(cp.iter().cloned()).chain(cg.iter().cloned()) {
        if text.len() <= 2000 {
            std::fs::write(dir.join("corpus").join(format!("seed-{:04}", n)), text.as_bytes())?;
            n += 1;
        }
    }
    let mut dict = String::new();
    for tok in TOKENS {
        let esc: String = tok.chars().map(|c| if c == '"' || c == '\\' { format!("\\{}", c) } else { c.to_string() }).collect();
        dict.push_str(&format!("\"{}\"\n", esc));
    }
    std::fs::write(dir.join("chalk.dict"), dict)?;
    Ok(n)
}

pub fn corpus_programs() -> &'static Vec<String> {
    &corpus().0
}

thread_local! {
    static PARSERS: (chalk_parse::parser::ProgramParser, chalk_parse::parser::GoalParser) = (chalk_parse::parser::ProgramParser::new(), chalk_parse::parser::GoalParser::new());
}

/// (program parsed, program lowered, goal parsed, goal lowered)
pub fn exercise(text: &str, public_api: bool) -> (bool, bool, bool, bool) {
    let mut st = (false, false, false, false);
    PARSERS.with(|(pp, gp)| {
        let base = base_program();
        let parsed = if public_api { chalk_parse::parse_program(text).ok() } else { pp.parse(text).ok() };
        if let Some(p) = parsed {
            st.0 = true;
            if let Ok(lp) = p.lower() {
                st.1 = true;
                // goals against the freshly lowered program
                for g in GOALS.iter().take(3) {
                    if let Ok(g) = gp.parse(g) {
                        let _ = lower_goal(&*g, &lp);
                    }
                }
            }
        }
        let gparsed = if public_api { chalk_parse::parse_goal(text).ok() } else { gp.parse(text).ok() };
        if let Some(g) = gparsed {
            st.2 = true;
            if lower_goal(&*g, base).is_ok() {
                st.3 = true;
            }
        }
    });
    st
}

fn base_program() -> &'static chalk_integration::program::Program {
    static P: OnceLock<chalk_integration::program::Program> = OnceLock::new();
    P.get_or_init(|| {
        chalk_parse::parse_program("struct S {} struct V<T> {} struct R<'a, T> {} struct K<const N> {} extern type E; trait Foo {} trait Bar<T> {} trait Tr { type A<'a, U>; } trait Iterator { type Item; } impl Foo for S {} impl<T> Iterator for V<T> { type Item = T; } opaque type Op<T>: Foo = S; fn f<T>(x: T) -> u32;")
            .unwrap()
            .lower()
            .unwrap()
    })
}

fn mutate_tokens(t: &mut Tape, toks: &mut Vec<String>, n: usize) {
    for _ in 0..n {
        if toks.is_empty() {
            break;
        }
        let i = t.choose(toks.len());
        match t.choose(5) {
            0 => {
                toks.remove(i);
            }
            1 => {
                let x = toks[t.choose(toks.len())].clone();
                toks.insert(i, x);
            }
            2 => toks[i] = TOKENS[t.choose(TOKENS.len())].to_string(),
            3 => {
                let j = t.choose(toks.len());
                toks.swap(i, j);
            }
            _ => toks.insert(i, TOKENS[t.choose(TOKENS.len())].to_string()),
        }
    }
}

/// planted semantic errors: unknown names, wrong arities, kind mismatches, duplicates, traits as types, shadowing
fn plant(t: &mut Tape, toks: &mut Vec<String>) {
    let idents: Vec<usize> = (0..toks.len()).filter(|i| toks[*i].chars().next().map(|c| c.is_alphabetic()).unwrap_or(false) && !TOKENS[..30].contains(&toks[*i].as_str())).collect();
    if idents.is_empty() {
        return;
    }
    let mut i = idents[t.choose(idents.len())];
    let mut kind = t.choose(9);
    if kind >= 7 {
        // arity errors on a name that carries arguments (generic associated types, traits, structs): drop all of them or
        // only the last one
        let with_args: Vec<usize> = idents.iter().copied().filter(|k| *k + 1 < toks.len() && toks[*k + 1] == "<").collect();
        if with_args.is_empty() {
            kind = 5;
        } else {
            i = with_args[t.choose(with_args.len())];
            if kind == 8 {
                // remove the last argument only: find the matching '>' and the last top-level ','
                let mut depth = 0;
                let mut last_comma = None;
                let mut close = None;
                for j in i + 1..toks.len() {
                    match toks[j].as_str() {
                        "<" => depth += 1,
                        ">" => {
                            depth -= 1;
                            if depth == 0 {
                                close = Some(j);
                                break;
                            }
                        }
                        "," if depth == 1 => last_comma = Some(j),
                        _ => {}
                    }
                }
                if let (Some(c), Some(e)) = (last_comma, close) {
                    toks.drain(c..e);
                    return;
                }
            }
            kind = 5;
        }
    }
    match kind {
        0 => toks[i] = "Unknown".into(),
        1 => {
            // add arguments to a name
            let args = ["<u8>", "<S, S>", "<'a>", "<3>", "<Foo>"][t.choose(5)];
            toks.insert(i + 1, args.into());
        }
        2 => {
            // replace a name by another identifier of the text (trait as type, type as trait, ...)
            let j = idents[t.choose(idents.len())];
            toks[i] = toks[j].clone();
        }
        3 => {
            // duplicate an item-ish span
            let j = (i + 1 + t.choose(12)).min(toks.len());
            let span: Vec<String> = toks[i..j].to_vec();
            for (k, s) in span.into_iter().enumerate() {
                toks.insert(j + k, s);
            }
        }
        4 => toks[i] = ["T", "Self", "'a", "N", "u32", "str"][t.choose(6)].into(),
        5 => {
            // drop the arguments following a name
            if i + 1 < toks.len() && toks[i + 1] == "<" {
                let mut j = i + 1;
                let mut depth = 0;
                while j < toks.len() {
                    if toks[j] == "<" {
                        depth += 1
                    }
                    if toks[j] == ">" {
                        depth -= 1;
                        if depth == 0 {
                            break;
                        }
                    }
                    j += 1;
                }
                if j < toks.len() {
                    toks.drain(i + 1..=j);
                }
            }
        }
        _ => {
            let lit = ["4294967296", "99999999999999999999", "0", "4294967295"][t.choose(4)];
            toks[i] = lit.into();
        }
    }
}

impl Property for C24 {
    type Case = Case;
    fn id(&self) -> &'static str {
        "C24"
    }
    fn crash_is_violation(&self) -> bool {
        true
    }
    fn rule(&self) -> String {
        "case = one input text, generated as (a) arbitrary bytes decoded lossily, (b) token soup over the grammar's vocabulary (all keywords, punctuation, attribute names, identifiers, lifetimes, numeric literals of every magnitude), (c) valid programs/goals — hand-written feature-rich seeds plus every `program { }` / `goal { }` block cut from /repo/tests at run time — mutated by token deletion / duplication / replacement / swap / insertion, (d) the same with planted semantic errors (unknown names, added or dropped arguments, names swapped between traits/types/parameters, duplicated items, shadowing, oversized literals). Each text goes through ProgramParser -> Lower::lower (+ goals lowered against it) and GoalParser -> lower_goal against a fixed program; 1 in 40 through the public parse_program / parse_goal wrappers. Oracle: Ok or Err; any panic (or a crash of the worker process) is a violation. Non-trivial = text that parses as a program or goal (reaches lowering); distinct by hash of the text.".into()
    }
    fn assumptions(&self) -> Vec<String> {
        vec!["nesting depth is bounded by the seeds (stack exhaustion on pathological nesting is not judged)".into()]
    }
    fn cases_per_shard(&self, tier: Tier) -> u32 {
        tier.pick(2000, 150000)
    }
    fn tape_len(&self, _tier: Tier) -> usize {
        160
    }
    fn decode(&self, t: &mut Tape, _tier: Tier) -> Case {
        let (cp, cg) = corpus();
        match t.choose(10) {
            0 => {
                let n = 1 + t.choose(120);
                let bytes: Vec<u8> = (0..n).map(|_| t.byte()).collect();
                Case { text: String::from_utf8_lossy(&bytes).to_string(), origin: "bytes".into() }
            }
            1 | 2 => {
                let k = 1 + t.choose(30);
                Case { text: (0..k).map(|_| TOKENS[t.choose(TOKENS.len())]).collect::<Vec<_>>().join(" "), origin: "token-soup".into() }
            }
            x => {
                let goal = t.chance(25);
                let src: &str = if goal {
                    if !cg.is_empty() && t.chance(70) {
                        &cg[t.choose(cg.len())]
                    } else {
                        GOALS[t.choose(GOALS.len())]
                    }
                } else if !cp.is_empty() && t.chance(70) {
                    &cp[t.choose(cp.len())]
                } else {
                    SEEDS[t.choose(SEEDS.len())]
                };
                let mut toks = tokenize(src);
                let origin;
                if x <= 6 {
                    let n = 1 + t.choose(3);
                    mutate_tokens(t, &mut toks, n);
                    origin = "mutated-valid";
                } else {
                    plant(t, &mut toks);
                    if t.chance(30) {
                        plant(t, &mut toks);
                    }
                    origin = "planted-semantic-error";
                }
                Case { text: toks.join(" "), origin: origin.into() }
            }
        }
    }
    fn describe(&self, c: &Case) -> Value {
        json!({"text": c.text, "origin": c.origin})
    }
    fn shrink(&self, c: &Case) -> Vec<Case> {
        let toks = tokenize(&c.text);
        let mut out = vec![];
        let n = toks.len();
        if n > 8 {
            out.push(Case { text: toks[..n / 2].join(" "), origin: c.origin.clone() });
            out.push(Case { text: toks[n / 2..].join(" "), origin: c.origin.clone() });
        }
        for i in 0..n.min(200) {
            let mut t2 = toks.clone();
            t2.remove(i);
            out.push(Case { text: t2.join(" "), origin: c.origin.clone() });
        }
        out
    }
    fn run(&self, c: &Case, _tier: Tier) -> CaseOut {
        let mut out = CaseOut::default();
        out.evals = 1;
        let public_api = hash_of(&c.text) % 40 == 0;
        match catch(|| exercise(&c.text, public_api)) {
            Ok(st) => {
                out.bump(&format!("origin:{}", c.origin));
                if st.0 {
                    out.bump("program_parsed");
                }
                if st.1 {
                    out.bump("program_lowered");
                }
                if st.2 {
                    out.bump("goal_parsed");
                }
                if st.3 {
                    out.bump("goal_lowered");
                }
                if st.0 || st.2 {
                    out.nontrivial.push(hash_of(&c.text));
                    if out.sample.is_none() && c.origin == "planted-semantic-error" {
                        out.sample = Some(json!({"text": c.text, "origin": c.origin, "program_parsed": st.0, "program_lowered": st.1, "goal_parsed": st.2, "goal_lowered": st.3}));
                    }
                }
            }
            Err(m) => out.fail(format!("panic:{}", m.chars().take(120).collect::<String>()), format!("panic: {}\ninput ({}): {}", m, c.origin, c.text)),
        }
        out
    }
}
