//! C18 — clause pre-filtering (could_match / impls_for_trait) never discards an applicable clause.
use super::common::*;
use crate::bir::*;
use crate::drive::{catch, parse_and_peel};
use crate::gen::{gen_goal, gen_program, GenCfg, GoalCfg};
use crate::model::{print_goal, print_program, Goal as MGoal, Program as MProgram};
use crate::runner::*;
use crate::tape::Tape;
use chalk_integration::interner::ChalkIr;
use chalk_ir::could_match::CouldMatch;
use chalk_ir::*;
use chalk_solve::infer::InferenceTable;
use chalk_solve::RustIrDatabase;
use serde::{Deserialize, Serialize};
use serde_json::{json, Value};

pub struct C18;

#[derive(Clone, Debug, Serialize, Deserialize)]
pub enum Case {
    /// clause head (arguments with Bound(0,k) clause variables) vs goal arguments
    Pair { head: Vec<BG>, goal: Vec<BG> },
    /// impl headers of a generated program vs the trait references of generated goals
    Program { program: MProgram, goals: Vec<MGoal> },
}

/// variances per ADT / fn-def id: arity decoded from the signature code (see `Gen::sig_id`)
#[derive(Debug)]
struct VDb;
fn arity_of(id: u32) -> usize {
    let mut code = id % 100;
    let mut n = 0;
    while code > 0 {
        n += 1;
        code /= 4;
    }
    n
}
impl UnificationDatabase<ChalkIr> for VDb {
    fn fn_def_variance(&self, id: FnDefId<ChalkIr>) -> Variances<ChalkIr> {
        Variances::from_iter(I, (0..arity_of(id.0.index)).map(|i| [Variance::Covariant, Variance::Contravariant, Variance::Invariant][(i + id.0.index as usize) % 3]))
    }
    fn adt_variance(&self, id: AdtId<ChalkIr>) -> Variances<ChalkIr> {
        Variances::from_iter(I, (0..arity_of(id.0.index)).map(|i| [Variance::Invariant, Variance::Covariant, Variance::Contravariant][(i + id.0.index as usize) % 3]))
    }
}

fn depth_g(g: &BG) -> usize {
    fn t(x: &BT) -> usize {
        match x {
            BT::Adt(_, a) | BT::AssocTy(_, a) | BT::OpaqueTy(_, a) | BT::FnDef(_, a) | BT::Proj(_, a) | BT::Opaque(_, a) => 1 + a.iter().map(depth_g).max().unwrap_or(0),
            BT::Tuple(a) | BT::Fn(_, a) => 1 + a.iter().map(t).max().unwrap_or(0),
            BT::Array(x, _) | BT::Slice(x) | BT::Raw(_, x) | BT::Ref(_, _, x) => 1 + t(x),
            _ => 1,
        }
    }
    match g {
        BG::T(x) => t(x),
        _ => 1,
    }
}

/// instantiate the clause variables of `g` with goal-side terms and perturb a sub-term now and then
fn goal_side(t: &mut Tape, g: &BG) -> BG {
    let params: Vec<BG> = vec![
        BG::T([BT::Scalar, BT::Infer(1, 0), BT::Placeholder(1, 0), BT::Adt(0, vec![]), BT::Str][t.choose(5)].clone()),
        BG::T([BT::Never, BT::Infer(2, 0), BT::Placeholder(2, 1), BT::Tuple(vec![BT::Scalar])][t.choose(4)].clone()),
        BG::L([BL::Static, BL::Ph(1, 3), BL::Infer(3), BL::Erased][t.choose(4)].clone()),
        BG::C(BC { cty: 0, v: [BCv::Val(2), BCv::Ph(1, 4), BCv::Infer(4)][t.choose(3)].clone() }),
    ];
    let inst = map_g(g, 0, &mut SubstMap(&params)).unwrap();
    fn perturb(t: &mut Tape, x: &BT) -> BT {
        if t.chance(12) {
            return [BT::Scalar, BT::Infer(5, 0), BT::Str, BT::Placeholder(1, 0), BT::Slice(Box::new(BT::Scalar)), BT::Raw(true, Box::new(BT::Never))][t.choose(6)].clone();
        }
        let pg = |t: &mut Tape, a: &Vec<BG>| -> Vec<BG> { a.iter().map(|g| if let BG::T(y) = g { BG::T(perturb(t, y)) } else { g.clone() }).collect() };
        match x {
            BT::Adt(i, a) => BT::Adt(*i, pg(t, a)),
            BT::FnDef(i, a) => BT::FnDef(*i, pg(t, a)),
            BT::AssocTy(i, a) => BT::AssocTy(*i, pg(t, a)),
            BT::OpaqueTy(i, a) => BT::OpaqueTy(*i, pg(t, a)),
            BT::Tuple(a) => BT::Tuple(a.iter().map(|y| perturb(t, y)).collect()),
            BT::Array(y, c) => BT::Array(Box::new(perturb(t, y)), c.clone()),
            BT::Slice(y) => BT::Slice(Box::new(perturb(t, y))),
            BT::Raw(m, y) => BT::Raw(if t.chance(10) { !*m } else { *m }, Box::new(perturb(t, y))),
            BT::Ref(m, l, y) => BT::Ref(if t.chance(10) { !*m } else { *m }, if t.chance(40) { BL::Ph(1, 5) } else { l.clone() }, Box::new(perturb(t, y))),
            BT::Fn(n, io) => BT::Fn(*n, io.iter().map(|y| perturb(t, y)).collect()),
            o => o.clone(),
        }
    }
    match inst {
        BG::T(x) => BG::T(perturb(t, &x)),
        o => o,
    }
}

fn trait_ref(id: u32, a: &[BG]) -> DomainGoal<ChalkIr> {
    DomainGoal::Holds(WhereClause::Implemented(TraitRef { trait_id: TraitId(chalk_integration::RawId { index: id }), substitution: subst(a) }))
}

impl Property for C18 {
    type Case = Case;
    fn id(&self) -> &'static str {
        "C18"
    }
    fn rule(&self) -> String {
        "case = (a) a clause conclusion `Implemented(Trait<args>)` under a binder of type/lifetime/const variables and a goal built from it by instantiating the clause variables (with concrete types, placeholders, inference variables) and perturbing sub-terms — over variance-carrying ADTs and fn defs, references, raw pointers, arrays, slices, tuples, fn pointers, projections, opaque types — or (b) a generated F-horn program with goals, where every impl header is confronted with the goal's trait reference through RustIrDatabase::impls_for_trait — with the goal's type unknowns as general, as integer and as float variables. Oracle: if real unification (InferenceTable::relate, Invariant) of the existentially instantiated conclusion / impl header with the goal succeeds, the pre-filter must answer true / return the impl. Non-trivial = pair that unifies and has nesting depth >= 2 (the filter had to look inside); distinct by hash.".into()
    }
    fn assumptions(&self) -> Vec<String> {
        vec!["chalk's own unifier is the applicability oracle (it is checked against a reference unifier by C14)".into()]
    }
    fn cases_per_shard(&self, tier: Tier) -> u32 {
        tier.pick(2500, 50000)
    }
    fn tape_len(&self, _tier: Tier) -> usize {
        400
    }
    fn decode(&self, t: &mut Tape, _tier: Tier) -> Case {
        if t.chance(20) {
            let program = gen_program(t, &GenCfg::horn());
            let gcfg = GoalCfg { not: false, eq: false, inner: false, hyps: false, ..GoalCfg::full() };
            let goals = (0..4).map(|_| gen_goal(t, &program, &gcfg)).collect();
            return Case::Program { program, goals };
        }
        let n = 1 + t.choose(3);
        let head: Vec<BG> = {
            let mut g = Gen { t, stack: vec![vec![K::Ty, K::Ty, K::Lt, K::Ct]], exotic: false };
            (0..n)
                .map(|_| {
                    let x = g.ty(3);
                    // keep to variables of the clause binder
                    BG::T(super::c17::strip_pub(&x))
                })
                .collect()
        };
        let goal = head.iter().map(|g| goal_side(t, g)).collect();
        Case::Pair { head, goal }
    }
    fn describe(&self, c: &Case) -> Value {
        match c {
            Case::Pair { head, goal } => json!({"clause_head_args": format!("{:?}", subst(head)), "goal_args": format!("{:?}", subst(goal))}),
            Case::Program { program, goals } => json!({"program": print_program(program), "goals": goals.iter().map(|g| print_goal(program, g)).collect::<Vec<_>>()}),
        }
    }
    fn shrink(&self, c: &Case) -> Vec<Case> {
        match c {
            Case::Pair { head, goal } if head.len() > 1 => (0..head.len())
                .map(|i| {
                    let (mut h, mut g) = (head.clone(), goal.clone());
                    h.remove(i);
                    g.remove(i);
                    Case::Pair { head: h, goal: g }
                })
                .collect(),
            Case::Program { program, goals } => PG { program: program.clone(), goals: goals.clone() }.shrink().into_iter().map(|pg| Case::Program { program: pg.program, goals: pg.goals }).collect(),
            _ => vec![],
        }
    }
    fn run(&self, case: &Case, _tier: Tier) -> CaseOut {
        let mut out = CaseOut::default();
        match case {
            Case::Pair { head, goal } => {
                out.evals = 1;
                let db = VDb;
                let id = 7100 + head.len() as u32;
                let r = catch(|| {
                    let clause_head = trait_ref(id, head);
                    let goal_dg = trait_ref(id, goal);
                    let imp = ProgramClauseImplication { consequence: clause_head.clone(), conditions: Goals::empty(I), constraints: Constraints::empty(I), priority: ClausePriority::High };
                    let pcd = ProgramClauseData(Binders::new(kinds(&[K::Ty, K::Ty, K::Lt, K::Ct]), imp));
                    let could = pcd.could_match(I, &db, &goal_dg);
                    // real unification
                    let mut table = InferenceTable::<ChalkIr>::new();
                    let u1 = table.new_universe();
                    let _u2 = table.new_universe();
                    // the goal's inference variables must exist in the table: create enough of them
                    for _ in 0..8 {
                        table.new_variable(u1);
                    }
                    let inst = table.instantiate_binders_existentially(I, Binders::new(kinds(&[K::Ty, K::Ty, K::Lt, K::Ct]), clause_head));
                    let unifies = table.relate(I, &db, &Environment::new(I), Variance::Invariant, &inst, &goal_dg).is_ok();
                    (could, unifies)
                });
                match r {
                    Ok((could, unifies)) => {
                        if unifies && !could {
                            out.fail("could-match-rejects-unifiable-clause", format!("the clause conclusion unifies with the goal but could_match says false\nhead args: {:?}\ngoal args: {:?}", subst(head), subst(goal)));
                        }
                        out.bump(match (could, unifies) {
                            (true, true) => "match+unify",
                            (true, false) => "match_only(filter is allowed to be imprecise)",
                            (false, false) => "rejected+not_unifiable",
                            (false, true) => "VIOLATION",
                        });
                        if unifies && head.iter().map(depth_g).max().unwrap_or(0) >= 2 {
                            out.nontrivial.push(hash_of(&format!("{:?}", case)));
                            if out.sample.is_none() {
                                out.sample = Some(self.describe(case));
                            }
                        }
                    }
                    Err(m) => out.fail(format!("panic:{}", m), format!("panic {}\n{:?}", m, self.describe(case))),
                }
            }
            Case::Program { program, goals } => {
                let pg = PG { program: program.clone(), goals: goals.clone() };
                let low = match lower_pg(&pg, &mut out) {
                    Some(l) => l,
                    None => return out,
                };
                with_program(&low, || {
                    for lg in low.goals.iter().flatten() {
                        let canon = &lg.peeled.goal.canonical;
                        let tr = match canon.value.goal.data(I) {
                            GoalData::DomainGoal(DomainGoal::Holds(WhereClause::Implemented(tr))) => tr.clone(),
                            _ => continue,
                        };
                        // every goal is confronted in three variants of its unknowns' kinds: as written (general type
                        // variables), and with the type unknowns turned into integer / float variables (`exists<int N>`)
                        for variant in 0..3usize {
                        let binders = CanonicalVarKinds::from_iter(
                            I,
                            canon.binders.iter(I).map(|b| match (&b.kind, variant) {
                                (VariableKind::Ty(TyVariableKind::General), 1) => WithKind::new(VariableKind::Ty(TyVariableKind::Integer), *b.skip_kind()),
                                (VariableKind::Ty(TyVariableKind::General), 2) => WithKind::new(VariableKind::Ty(TyVariableKind::Float), *b.skip_kind()),
                                _ => b.clone(),
                            }),
                        );
                        if variant > 0 && binders.iter(I).zip(canon.binders.iter(I)).all(|(x, y)| x.kind == y.kind) {
                            continue;
                        }
                        // an integer / float variable is only ever created for a bare unknown: skip variants whose retyped
                        // unknown occurs nowhere as a whole argument (nothing to learn) — the relate below is the oracle anyway
                        let vtext = ["", " [type unknowns as integer variables]", " [type unknowns as float variables]"][variant];
                        let returned = low.program.impls_for_trait(tr.trait_id, tr.substitution.as_slice(I), &binders);
                        for (impl_id, datum) in low.program.impl_data.iter() {
                            if datum.binders.skip_binders().trait_ref.trait_id != tr.trait_id {
                                continue;
                            }
                            out.evals += 1;
                            let r = catch(|| {
                                let mut table = InferenceTable::<ChalkIr>::new();
                                for _ in 1..lg.peeled.goal.universes {
                                    table.new_universe();
                                }
                                let goal_tr = table.instantiate_canonical(I, Canonical { value: tr.clone(), binders: binders.clone() });
                                let impl_tr = table.instantiate_binders_existentially(I, datum.binders.map_ref(|b| b.trait_ref.clone()));
                                table.relate(I, low.program.unification_database(), &Environment::new(I), Variance::Invariant, &impl_tr, &goal_tr).is_ok()
                            });
                            match r {
                                Ok(unifies) => {
                                    let listed = returned.contains(impl_id);
                                    if unifies && !listed {
                                        out.fail("impls-for-trait-omits-applicable-impl", format!("impl {:?} unifies with the goal `{}`{} but impls_for_trait does not return it\n{}", impl_id, lg.text, vtext, low.text));
                                    }
                                    if unifies {
                                        out.nontrivial.push(hash_of(&(&low.text, &lg.text, format!("{:?}", impl_id))));
                                        if out.sample.is_none() {
                                            out.sample = Some(json!({"program": low.text, "goal": lg.text, "impl": format!("{:?}", impl_id), "returned_by_impls_for_trait": listed}));
                                        }
                                    }
                                }
                                Err(m) => out.fail(format!("panic:{}", m), format!("panic {} goal {}\n{}", m, lg.text, low.text)),
                            }
                        }
                        }
                    }
                });
                let _ = parse_and_peel;
            }
        }
        out
    }
}
