//! C16 — canonical forms identify queries up to renaming; universe compression is invertible.
use crate::ir::{ph_lt, ph_ty, I};
use crate::runner::*;
use crate::tape::Tape;
use chalk_integration::interner::ChalkIr;
use chalk_integration::RawId;
use chalk_ir::cast::Cast;
use chalk_ir::*;
use chalk_solve::infer::ucanonicalize::UniverseMapExt;
use chalk_solve::infer::InferenceTable;
use serde::{Deserialize, Serialize};
use serde_json::{json, Value};

pub struct C16;

const NU: usize = 5; // universes 0..5 (gaps arise because only some occur)

#[derive(Clone, Debug, PartialEq, Eq, Hash, Serialize, Deserialize)]
pub enum L {
    Static,
    Ph(usize, usize),
    Var(usize),
}
#[derive(Clone, Debug, PartialEq, Eq, Hash, Serialize, Deserialize)]
pub enum C {
    Val(u32),
    Ph(usize, usize),
    Var(usize),
}
#[derive(Clone, Debug, PartialEq, Eq, Hash, Serialize, Deserialize)]
pub enum T {
    /// id % 3 = number of *type* arguments; args may mix types, lifetimes, consts
    Adt(u32, Vec<G>),
    Tuple(Vec<T>),
    Ref(L, Box<T>),
    Array(Box<T>, C),
    Scalar,
    Ph(usize, usize),
    Var(usize),
}
#[derive(Clone, Debug, PartialEq, Eq, Hash, Serialize, Deserialize)]
pub enum G {
    T(T),
    L(L),
    C(C),
}

/// variable declarations: (kind 0 general ty | 1 int ty | 2 float ty | 3 lifetime | 4 const, universe)
#[derive(Clone, Debug, Serialize, Deserialize)]
pub struct Case {
    pub vars: Vec<(u8, usize)>,
    pub value: Vec<G>,
    /// allocation order used for the second table (a permutation of 0..vars.len())
    pub perm: Vec<usize>,
    /// pairs of variables of the same kind (general type, const or lifetime) unified before canonicalization
    pub unify: Vec<(usize, usize)>,
}

struct Tab {
    table: InferenceTable<ChalkIr>,
    vars: Vec<GenericArg<ChalkIr>>,
}

fn usize_ty() -> Ty<ChalkIr> {
    TyKind::Scalar(Scalar::Uint(UintTy::Usize)).intern(I)
}

fn mk_table(decls: &[(u8, usize)], order: &[usize]) -> Tab {
    let mut table = InferenceTable::new();
    let mut unis = vec![UniverseIndex::root()];
    for _ in 1..NU {
        unis.push(table.new_universe());
    }
    let mut vars: Vec<Option<GenericArg<ChalkIr>>> = vec![None; decls.len()];
    for &i in order {
        let (k, u) = decls[i];
        let v = table.new_variable(unis[u]);
        vars[i] = Some(match k {
            0 => v.to_ty(I).cast(I),
            1 => v.to_ty_with_kind(I, TyVariableKind::Integer).cast(I),
            2 => v.to_ty_with_kind(I, TyVariableKind::Float).cast(I),
            3 => v.to_lifetime(I).cast(I),
            _ => v.to_const(I, usize_ty()).cast(I),
        });
    }
    Tab { table, vars: vars.into_iter().map(|v| v.unwrap()).collect() }
}

impl Tab {
    fn l(&self, l: &L) -> Lifetime<ChalkIr> {
        match l {
            L::Static => LifetimeData::Static.intern(I),
            L::Ph(u, i) => ph_lt(*u, *i),
            L::Var(v) => self.vars[*v].assert_lifetime_ref(I).clone(),
        }
    }
    fn c(&self, c: &C) -> Const<ChalkIr> {
        match c {
            C::Val(n) => ConstData { ty: usize_ty(), value: ConstValue::Concrete(ConcreteConst { interned: *n }) }.intern(I),
            C::Ph(u, i) => PlaceholderIndex { ui: UniverseIndex { counter: *u }, idx: *i }.to_const(I, usize_ty()),
            C::Var(v) => self.vars[*v].assert_const_ref(I).clone(),
        }
    }
    fn t(&self, t: &T) -> Ty<ChalkIr> {
        match t {
            T::Adt(id, a) => TyKind::Adt(AdtId(RawId { index: *id }), Substitution::from_iter(I, a.iter().map(|g| self.g(g)))).intern(I),
            T::Tuple(a) => TyKind::Tuple(a.len(), Substitution::from_iter(I, a.iter().map(|x| self.t(x).cast::<GenericArg<ChalkIr>>(I)))).intern(I),
            T::Ref(l, x) => TyKind::Ref(Mutability::Not, self.l(l), self.t(x)).intern(I),
            T::Array(x, c) => TyKind::Array(self.t(x), self.c(c)).intern(I),
            T::Scalar => TyKind::Scalar(Scalar::Bool).intern(I),
            T::Ph(u, i) => ph_ty(*u, *i),
            T::Var(v) => self.vars[*v].assert_ty_ref(I).clone(),
        }
    }
    fn g(&self, g: &G) -> GenericArg<ChalkIr> {
        match g {
            G::T(t) => self.t(t).cast(I),
            G::L(l) => self.l(l).cast(I),
            G::C(c) => self.c(c).cast(I),
        }
    }
    fn value(&self, v: &[G]) -> Substitution<ChalkIr> {
        Substitution::from_iter(I, v.iter().map(|g| self.g(g)))
    }
}

fn gen_l(t: &mut Tape, lts: &[usize]) -> L {
    match t.choose(4) {
        0 => L::Static,
        1 => L::Ph(t.choose(NU), t.choose(2)),
        _ if !lts.is_empty() => L::Var(lts[t.choose(lts.len())]),
        _ => L::Static,
    }
}
fn gen_c(t: &mut Tape, cts: &[usize]) -> C {
    match t.choose(4) {
        0 => C::Val(t.choose(4) as u32),
        1 => C::Ph(t.choose(NU), 2 + t.choose(2)),
        _ if !cts.is_empty() => C::Var(cts[t.choose(cts.len())]),
        _ => C::Val(7),
    }
}
fn gen_t(t: &mut Tape, tys: &[usize], lts: &[usize], cts: &[usize], depth: usize) -> T {
    if depth == 0 || t.chance(40) {
        match t.choose(8) {
            0..=3 if !tys.is_empty() => T::Var(tys[t.choose(tys.len())]),
            4 | 5 => T::Ph(t.choose(NU), t.choose(2)),
            _ => T::Scalar,
        }
    } else {
        match t.choose(5) {
            0 => {
                let n = 1 + t.choose(3);
                T::Adt(
                    (3 + n) as u32,
                    (0..n)
                        .map(|_| match t.choose(4) {
                            0 => G::L(gen_l(t, lts)),
                            1 => G::C(gen_c(t, cts)),
                            _ => G::T(gen_t(t, tys, lts, cts, depth - 1)),
                        })
                        .collect(),
                )
            }
            1 => {
                let n = t.choose(3);
                T::Tuple((0..n).map(|_| gen_t(t, tys, lts, cts, depth - 1)).collect())
            }
            2 => T::Ref(gen_l(t, lts), Box::new(gen_t(t, tys, lts, cts, depth - 1))),
            3 => T::Array(Box::new(gen_t(t, tys, lts, cts, depth - 1)), gen_c(t, cts)),
            _ => T::Adt(1, vec![G::T(gen_t(t, tys, lts, cts, depth - 1))]),
        }
    }
}

fn occurring_vars(v: &[G]) -> Vec<usize> {
    fn l(x: &L, o: &mut Vec<usize>) {
        if let L::Var(v) = x {
            if !o.contains(v) {
                o.push(*v)
            }
        }
    }
    fn c(x: &C, o: &mut Vec<usize>) {
        if let C::Var(v) = x {
            if !o.contains(v) {
                o.push(*v)
            }
        }
    }
    fn t(x: &T, o: &mut Vec<usize>) {
        match x {
            T::Var(v) => {
                if !o.contains(v) {
                    o.push(*v)
                }
            }
            T::Adt(_, a) => a.iter().for_each(|y| g(y, o)),
            T::Tuple(a) => a.iter().for_each(|y| t(y, o)),
            T::Ref(ll, y) => {
                l(ll, o);
                t(y, o)
            }
            T::Array(y, cc) => {
                t(y, o);
                c(cc, o)
            }
            _ => {}
        }
    }
    fn g(x: &G, o: &mut Vec<usize>) {
        match x {
            G::T(y) => t(y, o),
            G::L(y) => l(y, o),
            G::C(y) => c(y, o),
        }
    }
    let mut o = vec![];
    v.iter().for_each(|x| g(x, &mut o));
    o
}

fn rename_var(v: &[G], from: usize, to: usize) -> Vec<G> {
    fn l(x: &L, f: usize, to: usize) -> L {
        match x {
            L::Var(v) if *v == f => L::Var(to),
            o => o.clone(),
        }
    }
    fn c(x: &C, f: usize, to: usize) -> C {
        match x {
            C::Var(v) if *v == f => C::Var(to),
            o => o.clone(),
        }
    }
    fn t(x: &T, f: usize, to: usize) -> T {
        match x {
            T::Var(v) if *v == f => T::Var(to),
            T::Adt(i, a) => T::Adt(*i, a.iter().map(|y| g(y, f, to)).collect()),
            T::Tuple(a) => T::Tuple(a.iter().map(|y| t(y, f, to)).collect()),
            T::Ref(ll, y) => T::Ref(l(ll, f, to), Box::new(t(y, f, to))),
            T::Array(y, cc) => T::Array(Box::new(t(y, f, to)), c(cc, f, to)),
            o => o.clone(),
        }
    }
    fn g(x: &G, f: usize, to: usize) -> G {
        match x {
            G::T(y) => G::T(t(y, f, to)),
            G::L(y) => G::L(l(y, f, to)),
            G::C(y) => G::C(c(y, f, to)),
        }
    }
    v.iter().map(|x| g(x, from, to)).collect()
}

/// bound-variable indices of a canonical value in pre-order of first occurrence
fn first_occurrence_order(s: &Substitution<ChalkIr>) -> Vec<usize> {
    use chalk_ir::visit::{TypeSuperVisitable, TypeVisitable, TypeVisitor};
    use std::ops::ControlFlow;
    struct V(Vec<usize>);
    impl TypeVisitor<ChalkIr> for V {
        type BreakTy = ();
        fn as_dyn(&mut self) -> &mut dyn TypeVisitor<ChalkIr, BreakTy = ()> {
            self
        }
        fn visit_ty(&mut self, ty: &Ty<ChalkIr>, outer: DebruijnIndex) -> ControlFlow<()> {
            if let TyKind::BoundVar(bv) = ty.kind(I) {
                if bv.debruijn == outer && !self.0.contains(&bv.index) {
                    self.0.push(bv.index);
                }
                return ControlFlow::Continue(());
            }
            ty.super_visit_with(self.as_dyn(), outer)
        }
        fn visit_lifetime(&mut self, l: &Lifetime<ChalkIr>, outer: DebruijnIndex) -> ControlFlow<()> {
            if let LifetimeData::BoundVar(bv) = l.data(I) {
                if bv.debruijn == outer && !self.0.contains(&bv.index) {
                    self.0.push(bv.index);
                }
            }
            ControlFlow::Continue(())
        }
        fn visit_const(&mut self, c: &Const<ChalkIr>, outer: DebruijnIndex) -> ControlFlow<()> {
            if let ConstValue::BoundVar(bv) = &c.data(I).value {
                if bv.debruijn == outer && !self.0.contains(&bv.index) {
                    self.0.push(bv.index);
                }
            }
            ControlFlow::Continue(())
        }
        fn interner(&self) -> ChalkIr {
            ChalkIr
        }
    }
    let mut v = V(vec![]);
    let _ = s.visit_with(&mut v, DebruijnIndex::INNERMOST);
    v.0
}

fn placeholder_universes(v: &[G]) -> Vec<usize> {
    let s = format!("{:?}", v);
    let mut us = vec![];
    // mirror walk instead of text: collect from the structure
    fn l(x: &L, o: &mut Vec<usize>) {
        if let L::Ph(u, _) = x {
            o.push(*u)
        }
    }
    fn c(x: &C, o: &mut Vec<usize>) {
        if let C::Ph(u, _) = x {
            o.push(*u)
        }
    }
    fn t(x: &T, o: &mut Vec<usize>) {
        match x {
            T::Ph(u, _) => o.push(*u),
            T::Adt(_, a) => a.iter().for_each(|y| g(y, o)),
            T::Tuple(a) => a.iter().for_each(|y| t(y, o)),
            T::Ref(ll, y) => {
                l(ll, o);
                t(y, o)
            }
            T::Array(y, cc) => {
                t(y, o);
                c(cc, o)
            }
            _ => {}
        }
    }
    fn g(x: &G, o: &mut Vec<usize>) {
        match x {
            G::T(y) => t(y, o),
            G::L(y) => l(y, o),
            G::C(y) => c(y, o),
        }
    }
    let _ = s;
    v.iter().for_each(|x| g(x, &mut us));
    us
}

impl Property for C16 {
    type Case = Case;
    fn id(&self) -> &'static str {
        "C16"
    }
    fn rule(&self) -> String {
        "case = a tuple of 1-4 generic arguments (types of depth <= 4 over ADTs with mixed type/lifetime/const arguments, tuples, references, arrays; lifetimes; consts) over 2-6 inference variables of every kind (general/integer/float type, lifetime, const) created in 5 universes, placeholders (type, lifetime AND const) from arbitrary universes, repeated variables, and 0-2 pairs of variables unified before canonicalization. Oracle: (renaming) building the value in a second table whose variables are allocated in a permuted order gives an equal canonical form, while merging two occurring variables or moving an occurring variable to another universe gives a different one; (pre-unification) unifying ?i and ?j first equals canonicalizing the value with j renamed to i in the lower universe; (binders) canonical variables are numbered by first occurrence, each binder has the variable's kind and universe; (round trip) canonicalize(instantiate_canonical(c)) = c; (universes) u_canonicalize maps the occurring universes order-preservingly onto 0..n and map_from_canonical(u_canonicalize(c)) = c; (invert) on variable-free values equal placeholders become one variable in the placeholder's universe, and invert returns None iff a free variable occurs. Non-trivial = value with >=2 distinct variables one of them repeated, or >=2 distinct universes with a gap; distinct by hash of the case.".into()
    }
    fn assumptions(&self) -> Vec<String> {
        vec!["const variables/placeholders have type usize".into()]
    }
    fn cases_per_shard(&self, tier: Tier) -> u32 {
        tier.pick(2500, 50000)
    }
    fn tape_len(&self, _tier: Tier) -> usize {
        300
    }
    fn decode(&self, t: &mut Tape, _tier: Tier) -> Case {
        let nv = 2 + t.choose(5);
        let vars: Vec<(u8, usize)> = (0..nv)
            .map(|_| {
                let k = match t.choose(10) {
                    0..=4 => 0u8,
                    5 => 1,
                    6 => 2,
                    7 | 8 => 3,
                    _ => 4,
                };
                (k, t.choose(NU))
            })
            .collect();
        let of = |k: &[u8]| -> Vec<usize> { (0..nv).filter(|i| k.contains(&vars[*i].0)).collect() };
        let (tys, lts, cts) = (of(&[0, 1, 2]), of(&[3]), of(&[4]));
        let n = 1 + t.choose(4);
        let value: Vec<G> = (0..n)
            .map(|_| match t.choose(6) {
                0 => G::L(gen_l(t, &lts)),
                1 => G::C(gen_c(t, &cts)),
                _ => G::T(gen_t(t, &tys, &lts, &cts, 3)),
            })
            .collect();
        let mut perm: Vec<usize> = (0..nv).collect();
        t.shuffle(&mut perm);
        if perm.iter().enumerate().all(|(i, p)| i == *p) {
            perm.reverse();
        }
        let mut unify = vec![];
        for _ in 0..t.choose(3) {
            // same kind; lifetime variables only within one universe (a lifetime variable cannot be
            // unified with one of a higher universe: that yields outlives obligations instead)
            let kind = [0u8, 0, 4, 3][t.choose(4)];
            let pool: Vec<usize> = of(&[kind]);
            if pool.len() >= 2 {
                let a = pool[t.choose(pool.len())];
                let b = pool[t.choose(pool.len())];
                if a != b && (kind != 3 || vars[a].1 == vars[b].1) {
                    unify.push((a, b));
                }
            }
        }
        Case { vars, value, perm, unify }
    }
    fn describe(&self, c: &Case) -> Value {
        json!({"variables(kind 0 ty,1 int,2 float,3 lifetime,4 const; universe)": format!("{:?}", c.vars), "value": format!("{:?}", c.value), "second_allocation_order": c.perm, "pre_unified": c.unify})
    }
    fn shrink(&self, c: &Case) -> Vec<Case> {
        let mut out = vec![];
        if c.value.len() > 1 {
            for i in 0..c.value.len() {
                let mut q = c.clone();
                q.value.remove(i);
                out.push(q);
            }
        }
        for i in 0..c.unify.len() {
            let mut q = c.clone();
            q.unify.remove(i);
            out.push(q);
        }
        // replace an argument by one of its sub-arguments
        for i in 0..c.value.len() {
            if let G::T(t) = &c.value[i] {
                let subs: Vec<G> = match t {
                    T::Adt(_, a) => a.clone(),
                    T::Tuple(a) => a.iter().map(|x| G::T(x.clone())).collect(),
                    T::Ref(l, x) => vec![G::L(l.clone()), G::T((**x).clone())],
                    T::Array(x, cc) => vec![G::T((**x).clone()), G::C(cc.clone())],
                    _ => vec![],
                };
                for s in subs {
                    let mut q = c.clone();
                    q.value[i] = s;
                    out.push(q);
                }
            }
        }
        out
    }
    fn run(&self, case: &Case, _tier: Tier) -> CaseOut {
        let mut out = CaseOut::default();
        out.evals = 1;
        let ident: Vec<usize> = (0..case.vars.len()).collect();
        let ctx = |msg: String| format!("{}\nvalue: {:?}\nvariables: {:?}\npre-unified: {:?}", msg, case.value, case.vars, case.unify);
        let r = crate::drive::catch(|| {
            let mut fails: Vec<(String, String)> = vec![];
            let db = crate::ir::Db;
            let env = Environment::new(I);
            let build = |order: &[usize], unify: &[(usize, usize)]| -> (Tab, Canonical<Substitution<ChalkIr>>) {
                let mut tab = mk_table(&case.vars, order);
                for (a, b) in unify {
                    match case.vars[*a].0 {
                        4 => {
                            let (x, y) = (tab.vars[*a].assert_const_ref(I).clone(), tab.vars[*b].assert_const_ref(I).clone());
                            tab.table.relate(I, &db, &env, Variance::Invariant, &x, &y).expect("unifying two const variables");
                        }
                        3 => {
                            let (x, y) = (tab.vars[*a].assert_lifetime_ref(I).clone(), tab.vars[*b].assert_lifetime_ref(I).clone());
                            tab.table.relate(I, &db, &env, Variance::Invariant, &x, &y).expect("unifying two lifetime variables");
                        }
                        _ => {
                            let (x, y) = (tab.vars[*a].assert_ty_ref(I).clone(), tab.vars[*b].assert_ty_ref(I).clone());
                            tab.table.relate(I, &db, &env, Variance::Invariant, &x, &y).expect("unifying two general variables");
                        }
                    }
                }
                let v = tab.value(&case.value);
                let c = tab.table.canonicalize(I, v).quantified;
                (tab, c)
            };
            let (mut tab_a, ca) = build(&ident, &case.unify);
            let (_tab_b, cb) = build(&case.perm, &case.unify);
            if ca != cb {
                fails.push(("renaming-changes-canonical-form".into(), format!("variables allocated in order {:?} give {:?}\nbut allocated in order {:?} give {:?}", ident, ca, case.perm, cb)));
            }
            let occ = occurring_vars(&case.value);
            // binders: kinds / universes / first-occurrence numbering (only meaningful without pre-unification)
            if case.unify.is_empty() {
                let order = first_occurrence_order(&ca.value);
                if order != (0..ca.binders.len(I)).collect::<Vec<_>>() {
                    fails.push(("not-numbered-by-first-occurrence".into(), format!("canonical variables appear in order {:?} in {:?}", order, ca)));
                }
                if ca.binders.len(I) != occ.len() {
                    fails.push(("binder-count".into(), format!("{} binders for {} distinct variables: {:?}", ca.binders.len(I), occ.len(), ca)));
                } else {
                    for (b, v) in ca.binders.iter(I).zip(&occ) {
                        let (k, u) = case.vars[*v];
                        let kind_ok = match (&b.kind, k) {
                            (VariableKind::Ty(TyVariableKind::General), 0) | (VariableKind::Ty(TyVariableKind::Integer), 1) | (VariableKind::Ty(TyVariableKind::Float), 2) | (VariableKind::Lifetime, 3) | (VariableKind::Const(_), 4) => true,
                            _ => false,
                        };
                        if !kind_ok || b.skip_kind().counter != u {
                            fails.push(("binder-kind-or-universe".into(), format!("variable #{} declared (kind {}, universe {}) but its binder is {:?} in U{}: {:?}", v, k, u, b.kind, b.skip_kind().counter, ca)));
                        }
                    }
                }
                // non-consistent renamings must change the form
                if occ.len() >= 2 {
                    // merge two occurring variables of the same declaration
                    for i in 0..occ.len() {
                        for j in 0..occ.len() {
                            if i != j && case.vars[occ[i]] == case.vars[occ[j]] {
                                let merged = rename_var(&case.value, occ[j], occ[i]);
                                let mut t2 = mk_table(&case.vars, &ident);
                                let c2 = t2.table.canonicalize(I, t2.value(&merged)).quantified;
                                if c2 == ca {
                                    fails.push(("merging-variables-keeps-canonical-form".into(), format!("merging variable {} into {} leaves the canonical form unchanged: {:?}", occ[j], occ[i], ca)));
                                }
                            }
                        }
                    }
                }
                if let Some(v) = occ.first() {
                    let mut decls = case.vars.clone();
                    decls[*v].1 = (decls[*v].1 + 1) % NU;
                    let mut t2 = mk_table(&decls, &ident);
                    let c2 = t2.table.canonicalize(I, t2.value(&case.value)).quantified;
                    if c2 == ca {
                        fails.push(("universe-change-keeps-canonical-form".into(), format!("moving variable {} to another universe leaves the canonical form unchanged: {:?}", v, ca)));
                    }
                }
            } else {
                // pre-unification = renaming j -> i with the lower universe
                let mut decls = case.vars.clone();
                let mut val = case.value.clone();
                // union-find by repeated renaming
                for (a, b) in &case.unify {
                    let find = |val: &Vec<G>, decls: &Vec<(u8, usize)>, x: usize| -> usize {
                        let _ = (val, decls);
                        x
                    };
                    let (ra, rb) = (find(&val, &decls, *a), find(&val, &decls, *b));
                    let _ = (ra, rb);
                }
                // simple approach: compute classes
                let n = case.vars.len();
                let mut cls: Vec<usize> = (0..n).collect();
                for (a, b) in &case.unify {
                    let (ca_, cb_) = (cls[*a], cls[*b]);
                    if ca_ != cb_ {
                        for c in cls.iter_mut() {
                            if *c == cb_ {
                                *c = ca_;
                            }
                        }
                    }
                }
                for i in 0..n {
                    if cls[i] != i {
                        val = rename_var(&val, i, cls[i]);
                    }
                }
                for i in 0..n {
                    let m = (0..n).filter(|j| cls[*j] == cls[i]).map(|j| case.vars[j].1).min().unwrap();
                    decls[cls[i]].1 = m;
                }
                let mut t2 = mk_table(&decls, &ident);
                let c2 = t2.table.canonicalize(I, t2.value(&val)).quantified;
                if c2 != ca {
                    fails.push(("pre-unified-variables-not-identified".into(), format!("after unifying {:?}: {:?}\nbut the value with the classes merged canonicalizes to {:?}", case.unify, ca, c2)));
                }
            }
            // round trip
            let mut fresh = InferenceTable::<ChalkIr>::new();
            for _ in 1..NU {
                fresh.new_universe();
            }
            let inst = fresh.instantiate_canonical(I, ca.clone());
            let c2 = fresh.canonicalize(I, inst).quantified;
            if c2 != ca {
                fails.push(("instantiate-canonicalize-roundtrip".into(), format!("{:?}\nre-canonicalizes to {:?}", ca, c2)));
            }
            // universes
            let u = InferenceTable::u_canonicalize(I, &ca);
            let back = u.universes.map_from_canonical(I, &u.quantified.canonical);
            if back != ca {
                fails.push(("universe-roundtrip".into(), format!("{:?}\nu_canonicalize: {:?}\nmapped back: {:?}", ca, u.quantified, back)));
            }
            // order preservation: occurring universes (binders + placeholders) sorted -> 0..n
            let mut occ_u: Vec<usize> = ca.binders.iter(I).map(|b| b.skip_kind().counter).chain(placeholder_universes(&case.value)).chain(std::iter::once(0)).collect();
            occ_u.sort();
            occ_u.dedup();
            if u.quantified.universes != occ_u.len() {
                fails.push(("universe-count".into(), format!("{} universes occur ({:?}) but the compressed form has {}: {:?}", occ_u.len(), occ_u, u.quantified.universes, u.quantified)));
            } else {
                for (k, ou) in occ_u.iter().enumerate() {
                    let mapped = u.universes.map_universe_from_canonical(UniverseIndex { counter: k });
                    if mapped.counter != *ou {
                        fails.push(("universe-order-not-preserved".into(), format!("compressed universe {} maps back to U{} but the {}-th occurring universe is U{}", k, mapped.counter, k, ou)));
                    }
                }
            }
            // invert
            let v = tab_a.value(&case.value);
            let inv = tab_a.table.invert(I, v);
            if occ.is_empty() != inv.is_some() {
                fails.push(("invert-none-iff-free-variable".into(), format!("value has {} free variables but invert returned {}", occ.len(), if inv.is_some() { "Some" } else { "None" })));
            }
            if let Some(iv) = inv {
                // placeholders -> variables: canonical form has one binder per distinct placeholder, in its universe
                let ci = tab_a.table.canonicalize(I, iv).quantified;
                let mut phs: Vec<(usize, usize, u8)> = vec![];
                fn collect(v: &[G], o: &mut Vec<(usize, usize, u8)>) {
                    fn l(x: &L, o: &mut Vec<(usize, usize, u8)>) {
                        if let L::Ph(u, i) = x {
                            if !o.contains(&(*u, *i, 1)) {
                                o.push((*u, *i, 1))
                            }
                        }
                    }
                    fn c(x: &C, o: &mut Vec<(usize, usize, u8)>) {
                        if let C::Ph(u, i) = x {
                            if !o.contains(&(*u, *i, 2)) {
                                o.push((*u, *i, 2))
                            }
                        }
                    }
                    fn t(x: &T, o: &mut Vec<(usize, usize, u8)>) {
                        match x {
                            T::Ph(u, i) => {
                                if !o.contains(&(*u, *i, 0)) {
                                    o.push((*u, *i, 0))
                                }
                            }
                            T::Adt(_, a) => a.iter().for_each(|y| g(y, o)),
                            T::Tuple(a) => a.iter().for_each(|y| t(y, o)),
                            T::Ref(ll, y) => {
                                l(ll, o);
                                t(y, o)
                            }
                            T::Array(y, cc) => {
                                t(y, o);
                                c(cc, o)
                            }
                            _ => {}
                        }
                    }
                    fn g(x: &G, o: &mut Vec<(usize, usize, u8)>) {
                        match x {
                            G::T(y) => t(y, o),
                            G::L(y) => l(y, o),
                            G::C(y) => c(y, o),
                        }
                    }
                    v.iter().for_each(|x| g(x, o));
                }
                collect(&case.value, &mut phs);
                let us: Vec<usize> = ci.binders.iter(I).map(|b| b.skip_kind().counter).collect();
                let exp: Vec<usize> = phs.iter().map(|p| p.0).collect();
                if us != exp {
                    fails.push(("invert-placeholder-mapping".into(), format!("distinct placeholders (universe, idx, kind) {:?} should become one variable each in their universe, but the inverted value canonicalizes to {:?}", phs, ci)));
                }
            }
            fails
        });
        match r {
            Ok(fails) => {
                for (sig, msg) in fails {
                    out.fail(sig, ctx(msg));
                }
            }
            Err(m) => out.fail(format!("panic:{}", m), ctx(format!("panic: {}", m))),
        }
        let occ = occurring_vars(&case.value);
        let repeated = format!("{:?}", case.value).matches("Var(").count() > occ.len();
        let mut us: Vec<usize> = occ.iter().map(|v| case.vars[*v].1).chain(placeholder_universes(&case.value)).collect();
        us.sort();
        us.dedup();
        let gap = us.len() >= 2 && us.windows(2).any(|w| w[1] > w[0] + 1);
        if (occ.len() >= 2 && repeated) || gap {
            out.nontrivial.push(hash_of(&format!("{:?}", case)));
            if gap {
                out.bump("universe_gap");
            }
            if !case.unify.is_empty() {
                out.bump("pre_unified");
            }
            if out.sample.is_none() {
                out.sample = Some(self.describe(case));
            }
        }
        out
    }
}
