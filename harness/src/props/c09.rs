//! C09 — every solve call terminates (within a deterministic work budget) and does not panic.
use super::common::*;
use crate::drive::*;
use crate::gen::*;
use crate::model::*;
use crate::runner::*;
use crate::tape::Tape;
use chalk_integration::interner::ChalkIr;
use chalk_integration::SolverChoice;
use serde::{Deserialize, Serialize};
use serde_json::{json, Value};

pub struct C09;

#[derive(Clone, Debug, Serialize, Deserialize)]
pub struct Case {
    pub pg: PG,
    pub slg_max: usize,
    pub rec_max: usize,
    pub rec_overflow: usize,
    /// also drive solve_multiple (SLG), stopping after 20 answers
    pub multiple: bool,
    /// non-empty: a text-level case over the fixed const / lifetime program of C28 (`pg` is then empty)
    #[serde(default)]
    pub rich_goals: Vec<String>,
}

/// goals with lifetime, const and int/float unknowns, hypotheses and solver-opened quantifiers over C28's fixed program:
/// every solve must return within the budget and without a panic
fn run_rich(goals: &[String]) -> CaseOut {
    let mut out = CaseOut::default();
    out.bump("fragment:rich-text");
    let program = match lower_program(super::c28::RICH_PROGRAM) {
        Ok(p) => p,
        Err(e) => {
            out.fail("lowering/program-rejected", format!("fixed rich program does not lower: {}", e));
            return out;
        }
    };
    chalk_integration::tls::set_current_program(&program, || {
        for g in goals {
            let peeled = match catch(|| parse_and_peel(&program, g)) {
                Ok(Ok(p)) => p,
                _ => {
                    out.bump("rich_goal_does_not_lower");
                    continue;
                }
            };
            for sv in Sv::BOTH {
                out.evals += 1;
                let (run, work) = solve_fresh(&*program, sv.choice(), &peeled.goal, B1);
                out.max(&format!("work:rich:{}", sv.name()), work);
                let run = if matches!(run, Run::Budget) {
                    out.bump("slow(needed the second budget)");
                    solve_fresh(&*program, sv.choice(), &peeled.goal, B2).0
                } else {
                    run
                };
                match run {
                    Run::Done(_) | Run::Overflow => {
                        out.nontrivial.push(hash_of(&("rich", g, sv.name())));
                        if out.sample.is_none() {
                            out.sample = Some(json!({"program": "fixed rich program (harness/src/props/c28.rs)", "goal": g, "solver": sv.name(), "work_units": work}));
                        }
                    }
                    // the fixed program has generative impls (`impl<T> Foo for V<T> where T: Foo`): with an unknown in the goal
                    // the answer set is unbounded and a budget excess says nothing (as for the generated programs); goals
                    // without any `exists` are closed and bounded by the goal's own size
                    Run::Budget if g.contains("exists<") => out.bump("budget_exceeded_with_unknowns(not judged)"),
                    Run::Budget => out.fail(format!("{}:runaway:rich", sv.name()), format!("[{}] no result within {} work units\n{}goal: {}", sv.name(), B2, super::c28::RICH_PROGRAM, g)),
                    Run::Panic(m) => out.fail(format!("{}:panic:{}", sv.name(), m), format!("[{}] panic {}\n{}goal: {}", sv.name(), m, super::c28::RICH_PROGRAM, g)),
                }
            }
        }
    });
    out
}

pub const B1: u64 = 300_000;
pub const B2: u64 = 3_000_000;

fn features(p: &Program) -> String {
    let mut f = vec![];
    if p.traits.iter().any(|t| t.kind == TraitKind::Auto) {
        f.push("auto");
    }
    if p.traits.iter().any(|t| t.kind == TraitKind::Coinductive) {
        f.push("coinductive");
    }
    if !non_growing(p) {
        f.push("growing");
    }
    if p.traits.iter().any(|t| !t.supers.is_empty()) {
        f.push("supertraits");
    }
    f.join("+")
}

impl Property for C09 {
    type Case = Case;
    fn id(&self) -> &'static str {
        "C09"
    }
    fn crash_is_violation(&self) -> bool {
        true
    }
    fn rule(&self) -> String {
        format!("case = (88 %) generated program with growth knobs (growing where-clauses, polymorphic recursion, recursive struct fields under auto traits, unbounded answer sets) and 4 goals of all forms; every goal is solved with SLG and the recursive solver (cache on) at default limits and at one generated reduced configuration, and (half of the cases) enumerated with solve_multiple stopping after 20 answers. Oracle: the call returns without a panic other than the documented 'overflow depth reached' of the recursive solver, within a deterministic work budget counted by the cfg(chalk_verif) hook (SLG: root-loop iterations + table creations; recursive: solve_goal entries): {} units, re-run once with {} units — completing only in the re-run counts as 'slow', exceeding both is a violation (units also count goal- and type-node folds, so they track real cost; the largest honest solves of these sizes need < 1e5 units, measured and reported as max:work). In 12 % of the cases the goals are text-level goals (pool + generator: lifetime / const / int-float unknowns, hypotheses over lifetime-parameterised types, solver-opened quantifiers) over C28's fixed program, each solved by both solvers under the same budget. A worker process dying on a signal is a violation with the in-flight case. Non-trivial = (program, goal, configuration) whose program has a growing or cyclic rule or coinductive traits; distinct by hash.", B1, B2)
    }
    fn assumptions(&self) -> Vec<String> {
        vec![
            "'bounded amount of work' is operationalised as the work budget; termination itself cannot be shown by testing".into(),
            "the recursive solver with caching disabled is excluded (it legitimately re-solves shared subgoals exponentially often)".into(),
        ]
    }
    fn cases_per_shard(&self, tier: Tier) -> u32 {
        tier.pick(600, 6000)
    }
    fn decode(&self, t: &mut Tape, _tier: Tier) -> Case {
        if t.chance(12) {
            let rich_goals = (0..4).map(|_| if t.chance(35) { super::c28::RICH_GOALS[t.choose(super::c28::RICH_GOALS.len())].to_string() } else { super::c28::gen_rich_goal(t) }).collect();
            return Case { pg: PG { program: Program::default(), goals: vec![] }, slg_max: 10, rec_max: 30, rec_overflow: 100, multiple: false, rich_goals };
        }
        let mut cfg = if t.chance(60) { GenCfg::horn_auto() } else { GenCfg::horn() };
        cfg.fact_bias = 20;
        let pg = super::c01::decode_pg(t, &cfg, &GoalCfg::full(), 4);
        Case { pg, slg_max: [10, 7, 5, 3][t.choose(4)], rec_max: [30, 12, 8, 4][t.choose(4)], rec_overflow: [100, 40][t.choose(2)], multiple: t.chance(50), rich_goals: vec![] }
    }
    fn describe(&self, c: &Case) -> Value {
        if !c.rich_goals.is_empty() {
            return json!({"program": super::c28::RICH_PROGRAM, "goals": c.rich_goals});
        }
        let mut v = c.pg.describe();
        v["config"] = json!({"slg_max_size": c.slg_max, "rec_max_size": c.rec_max, "rec_overflow_depth": c.rec_overflow, "solve_multiple": c.multiple});
        v
    }
    fn shrink(&self, c: &Case) -> Vec<Case> {
        if !c.rich_goals.is_empty() {
            return (0..c.rich_goals.len())
                .filter(|_| c.rich_goals.len() > 1)
                .map(|i| {
                    let mut q = c.clone();
                    q.rich_goals.remove(i);
                    q
                })
                .collect();
        }
        c.pg.shrink().into_iter().map(|pg| Case { pg, ..c.clone() }).collect()
    }
    fn run(&self, case: &Case, _tier: Tier) -> CaseOut {
        if !case.rich_goals.is_empty() {
            return run_rich(&case.rich_goals);
        }
        let mut out = CaseOut::default();
        let low = match lower_pg(&case.pg, &mut out) {
            Some(l) => l,
            None => return out,
        };
        let mut configs: Vec<(String, &'static str, SolverChoice)> = vec![("slg".into(), "slg", SolverChoice::slg_default()), ("rec".into(), "rec", SolverChoice::recursive_default())];
        if case.slg_max != 10 {
            configs.push((format!("slg(max_size={})", case.slg_max), "slg", SolverChoice::SLG { max_size: case.slg_max, expected_answers: None }));
        }
        if (case.rec_max, case.rec_overflow) != (30, 100) {
            configs.push((format!("rec(max_size={},overflow={})", case.rec_max, case.rec_overflow), "rec", SolverChoice::Recursive { overflow_depth: case.rec_overflow, caching_enabled: true, max_size: case.rec_max }));
        }
        let feats = features(&case.pg.program);
        let interesting = !feats.is_empty();
        with_program(&low, || {
            for lg in low.goals.iter().flatten() {
                for (name, base, choice) in &configs {
                    let modes: &[bool] = if case.multiple && *base == "slg" { &[false, true] } else { &[false] };
                    for multi in modes {
                        out.evals += 1;
                        let call = |budget: u64| -> (Run<String>, u64) {
                            guarded(budget, || {
                                let mut solver = choice.into_solver();
                                if *multi {
                                    let mut n = 0;
                                    let fin = solver.solve_multiple(&*low.program, &lg.peeled.goal, &mut |res, _| {
                                        n += 1;
                                        !(matches!(res, chalk_solve::SubstitutionResult::Floundered) || n >= 20)
                                    });
                                    format!("{} answers, finished={}", n, fin)
                                } else {
                                    render(&solver.solve(&*low.program, &lg.peeled.goal))
                                }
                            })
                        };
                        let _ = ChalkIr;
                        let (r1, w1) = call(B1);
                        let mode = if *multi { "solve_multiple" } else { "solve" };
                        let ctx = |msg: String| format!("[{} {}] {}\n{}goal: {}", name, mode, msg, low.text, lg.text);
                        let answer = match r1 {
                            Run::Done(a) => {
                                out.max(&format!("work:{}", base), w1);
                                out.bump(&format!("work:{}:{}", base, work_bucket(w1)));
                                a
                            }
                            Run::Overflow => {
                                out.bump("rec:overflow(documented, out of contract)");
                                continue;
                            }
                            Run::Panic(m) => {
                                out.fail(format!("{}:panic:{}", base, m), ctx(format!("panic: {}", m)));
                                continue;
                            }
                            Run::Budget => {
                                let (r2, w2) = call(B2);
                                match r2 {
                                    Run::Done(a) => {
                                        out.bump(&format!("{}:slow(completed only within the larger budget)", base));
                                        out.max(&format!("work:{}", base), w2);
                                        a
                                    }
                                    Run::Budget if !(non_growing(&case.pg.program) && non_growing_fields(&case.pg.program) && finite_answers(&case.pg.program)) => {
                                        // Growing where-clauses / fields and generative recursive impls give unbounded
                                        // answer sets: both solvers then legitimately enumerate everything below the size
                                        // limit, which is exponential in max_size when two constructors (or a duplicated
                                        // where-clause) branch — it terminates (measured: 5e5 .. >3e6 units) but no fixed
                                        // budget separates it from a runaway. Not judged for the budget; panics and
                                        // crashes on these programs are still violations.
                                        out.bump(&format!("{}:budget_exceeded_on_unbounded_program(not judged)", base));
                                        continue;
                                    }
                                    Run::Budget => {
                                        // classification: does the reference derivation of this goal go through a coinductive cycle?
                                        let class = if program_has_co_cycle(&case.pg.program) {
                                            "coinductive-cycle".to_string()
                                        } else if env_existential(&case.pg.program) && (case.pg.program.traits.iter().any(|t| !t.supers.is_empty()) || case.pg.program.ctors.iter().any(|c| !c.wcs.is_empty())) {
                                            "env-with-trait-params".to_string()
                                        } else {
                                            feats.clone()
                                        };
                                        out.fail(format!("{}:runaway:{}", base, class), ctx(format!("no result within {} work units (budget {} exceeded first): runaway search", B2, B1)));
                                        continue;
                                    }
                                    Run::Overflow => continue,
                                    Run::Panic(m) => {
                                        out.fail(format!("{}:panic:{}", base, m), ctx(format!("panic: {}", m)));
                                        continue;
                                    }
                                }
                            }
                        };
                        if interesting {
                            out.nontrivial.push(hash_of(&(&low.text, &lg.text, name, multi)));
                            if out.sample.is_none() && feats.contains("growing") {
                                out.sample = Some(json!({"program": low.text, "goal": lg.text, "config": name, "mode": mode, "result": answer, "work_units": w1, "program_features": feats}));
                            }
                        }
                    }
                }
            }
        });
        out
    }
}
