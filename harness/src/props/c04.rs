//! C04 — the two solvers never contradict each other (differential, no reference semantics).
use super::common::*;
use crate::drive::*;
use crate::gen::*;
use crate::refsem::pattern_instance_of;
use crate::runner::*;
use crate::tape::Tape;
use chalk_solve::{Guidance, Solution};
use serde_json::{json, Value};

pub struct C04;

/// A case is either a model program with goals, or goals (text) over the fixed const / lifetime / int-float program
/// of C28 (no reference model is needed for a differential, so the text level is enough there).
#[derive(Clone, Debug, serde::Serialize, serde::Deserialize)]
#[serde(untagged)]
pub enum Case {
    Rich { rich_goals: Vec<String> },
    Horn(PG),
}

/// Some((class, message)) if the two answers are incompatible in the sense of the property
pub fn incompatible(names: &Names, peeled: &Peeled, slg: &Option<Solution<chalk_integration::interner::ChalkIr>>, rec: &Option<Solution<chalk_integration::interner::ChalkIr>>, out: &mut CaseOut) -> Option<(String, String)> {
    match (slg, rec) {
        (None, Some(Solution::Unique(_))) => Some(("slg-none-vs-rec-unique".into(), "SLG says 'No possible solution', recursive says Unique".into())),
        (Some(Solution::Unique(_)), None) => Some(("slg-unique-vs-rec-none".into(), "SLG says Unique, recursive says 'No possible solution'".into())),
        (Some(a @ Solution::Unique(_)), Some(b @ Solution::Unique(_))) => {
            let (ta, tb) = (subst_text(a), subst_text(b));
            if ta != tb {
                Some(("unique-substitutions-differ".into(), format!("Unique substitutions differ (lifetimes erased): slg [{}] vs rec [{}]", ta, tb)))
            } else {
                None
            }
        }
        (Some(u @ Solution::Unique(_)), Some(Solution::Ambig(Guidance::Definite(_)))) | (Some(Solution::Ambig(Guidance::Definite(_))), Some(u @ Solution::Unique(_))) => {
            let (d, who) = if matches!(slg, Some(Solution::Unique(_))) { (rec, "rec") } else { (slg, "slg") };
            match (names.convert(peeled, &Some(u.clone())), names.convert(peeled, d)) {
                (Ok(Ans::Unique(su, _)), Ok(Ans::Definite(sd, _))) => {
                    if pattern_instance_of(&su, &sd) {
                        None
                    } else {
                        let rep = if has_repeated_cvar(&sd) { ":repeated-var" } else { "" };
                        Some((format!("unique-not-instance-of-{}-definite-guidance{}", who, rep), format!("Unique substitution is not an instance of {}'s definite guidance", who)))
                    }
                }
                _ => {
                    out.bump("instance_check_skipped(types outside the model)");
                    None
                }
            }
        }
        _ => None,
    }
}

impl Property for C04 {
    type Case = Case;
    fn id(&self) -> &'static str {
        "C04"
    }
    fn rule(&self) -> String {
        "case = generated program (60 %: F-horn / auto / coinductive / supertraits, negative impls, enums; 10 %: environment fragment of C06 with hypothesis goals; 17 %: associated-type fragment of C07 with Normalize / projection goals; 8 %: built-in-trait fragment of C08) with 4-6 goals, or (17 %) four goals — from a pool or generated, with solver-opened quantifiers — over a fixed program with lifetime, const, integer and float unknowns, compared at the text level; each goal solved by a fresh SLG and a fresh recursive solver; oracle = compatibility relation of the property (no None-vs-Unique, equal Unique substitutions after erasing lifetimes, Unique is an instance of the other's definite guidance). Non-trivial = (program, goal) where at least one answer is Unique/None and the goal has a quantifier/if/not/conjunction, or the two rendered answers differ; distinct by hash of (program text, goal text).".into()
    }
    fn assumptions(&self) -> Vec<String> {
        vec!["programs are only lowered, not coherence/WF checked (the property says: pass lowering)".into(), "lifetime constraints are not compared".into()]
    }
    fn cases_per_shard(&self, tier: Tier) -> u32 {
        tier.pick(600, 6000)
    }
    fn decode(&self, t: &mut Tape, _tier: Tier) -> Case {
        // no reference semantics is needed here, so every fragment that has a generator takes part
        match t.choose(12) {
            6 => Case::Horn(super::c06::C06.decode(t, _tier).pg),
            7 | 8 => Case::Horn(super::c07::C07.decode(t, _tier)),
            9 => Case::Horn(super::c08::C08.decode(t, _tier)),
            10 | 11 => {
                let mut rich_goals: Vec<String> = (0..4).map(|_| if t.chance(40) { super::c28::RICH_GOALS[t.choose(super::c28::RICH_GOALS.len())].to_string() } else { super::c28::gen_rich_goal(t) }).collect();
                // round 7 (seed C04z): two const unknowns that only an impl's answer links (`impl<const N> Len<N> for S<N>`
                // answers `S<?A>: Len<?B>` with ?A = ?B), in a conjunction that pins one of them elsewhere
                rich_goals.push(const_link_goal(t));
                Case::Rich { rich_goals }
            }
            _ => {
                let cfg = if t.chance(60) { GenCfg::horn_auto() } else { GenCfg::horn() };
                Case::Horn(super::c01::decode_pg(t, &cfg, &GoalCfg::full(), 4))
            }
        }
    }
    fn describe(&self, case: &Case) -> Value {
        match case {
            Case::Horn(pg) => pg.describe(),
            Case::Rich { rich_goals } => json!({"program": super::c28::RICH_PROGRAM, "goals": rich_goals}),
        }
    }
    fn shrink(&self, case: &Case) -> Vec<Case> {
        match case {
            Case::Horn(pg) => pg.shrink().into_iter().map(Case::Horn).collect(),
            Case::Rich { rich_goals } => (0..rich_goals.len())
                .filter(|_| rich_goals.len() > 1)
                .map(|i| {
                    let mut g = rich_goals.clone();
                    g.remove(i);
                    Case::Rich { rich_goals: g }
                })
                .collect(),
        }
    }
    fn run(&self, case: &Case, tier: Tier) -> CaseOut {
        match case {
            Case::Horn(pg) => self.run_pg(pg, tier),
            Case::Rich { rich_goals } => run_rich(rich_goals),
        }
    }
}

fn const_link_goal(t: &mut Tape) -> String {
    let link = match t.choose(3) {
        0 => "S<N1>: Len<N2>",
        1 => "S<N2>: Len<N1>",
        _ => "[A; N1]: Len<N2>",
    };
    let pins = ["S<N1>: Foo", "S<N2>: Foo", "A: Len<N1>", "A: Len<N2>", "[A; N1]: Tri", "[B; N2]: Tri", "S<N1>: Holds", "S<N2> = S<4>", "S<N1> = S<2>"];
    let mut items = vec![link.to_string()];
    for _ in 0..(1 + t.choose(2)) {
        let pin = pins[t.choose(pins.len())].to_string();
        if t.chance(50) {
            items.push(pin);
        } else {
            items.insert(0, pin);
        }
    }
    format!("exists<const N1, const N2> {{ {} }}", items.join(", "))
}

/// text-level differential over the fixed rich program (lifetime, const, integer / float unknowns, solver-opened
/// quantifiers): the first three clauses of the compatibility relation need no model
fn run_rich(goals: &[String]) -> CaseOut {
    let mut out = CaseOut::default();
    out.bump("fragment:rich-text");
    let program = match lower_program(super::c28::RICH_PROGRAM) {
        Ok(p) => p,
        Err(e) => {
            out.fail("lowering/program-rejected", format!("fixed rich program does not lower: {}", e));
            return out;
        }
    };
    let model = crate::model::Program::default();
    let names = Names { program: &program, model: &model };
    chalk_integration::tls::set_current_program(&program, || {
        for g in goals {
            let peeled = match catch(|| parse_and_peel(&program, g)) {
                Ok(Ok(p)) => p,
                _ => {
                    out.bump("rich_goal_does_not_lower");
                    continue;
                }
            };
            let mut sols = vec![];
            for sv in Sv::BOTH {
                out.evals += 1;
                match solve_fresh(&*program, sv.choice(), &peeled.goal, DEFAULT_BUDGET).0 {
                    Run::Done(s) => sols.push(s),
                    Run::Panic(m) => {
                        out.fail(format!("{}:panic:{}", sv.name(), m), format!("[{}] panic: {}\ngoal: {}", sv.name(), m, g));
                        break;
                    }
                    _ => {
                        out.bump("outside_limits(not judged)");
                        break;
                    }
                }
            }
            if sols.len() != 2 {
                continue;
            }
            let (ra, rb) = (render(&sols[0]), render(&sols[1]));
            if let Some((class, msg)) = incompatible(&names, &peeled, &sols[0], &sols[1], &mut out) {
                out.fail(format!("{}:rich", class), format!("{}\n{}goal: {}\nslg: {}\nrec: {}", msg, super::c28::RICH_PROGRAM, g, ra, rb));
            }
            if ra != rb {
                out.bump("rendered_answers_differ");
            }
            let definite = |s: &Option<Solution<_>>| matches!(s, None | Some(Solution::Unique(_)));
            if definite(&sols[0]) || definite(&sols[1]) {
                out.nontrivial.push(hash_of(&("rich", g)));
                if out.sample.is_none() {
                    out.sample = Some(json!({"program": "fixed rich program (harness/src/props/c28.rs)", "goal": g, "slg": ra, "rec": rb}));
                }
            }
        }
    });
    out
}

impl C04 {
    fn run_pg(&self, case: &PG, _tier: Tier) -> CaseOut {
        let mut out = CaseOut::default();
        let low = match lower_pg(case, &mut out) {
            Some(l) => l,
            None => return out,
        };
        let names = Names { program: &low.program, model: &case.program };
        with_program(&low, || {
            for (gi, g) in case.goals.iter().enumerate() {
                let lg = match &low.goals[gi] {
                    Some(x) => x,
                    None => continue,
                };
                let a = solve_judged(&low, lg, Sv::Slg, &mut out);
                let b = solve_judged(&low, lg, Sv::Rec, &mut out);
                let (a, b) = match (a, b) {
                    (Some(a), Some(b)) => (a, b),
                    _ => continue,
                };
                let (ra, rb) = (render(&a), render(&b));
                if let Some((class, msg)) = incompatible(&names, &lg.peeled, &a, &b, &mut out) {
                    // classification only: does the reference derivation of this goal go through a coinductive cycle?
                    let st = crate::refsem::solution_sets(&case.program, g, 2, 50).st;
                    let qual = if class.contains("repeated-var") {
                        ""
                    } else if st.used_env && env_existential(&case.program) {
                        ":env-with-trait-params"
                    } else if st.co_cycle || (program_has_co_cycle(&case.program) && !goal_is_closed(g)) {
                        co_qual_st(g, &st, true)
                    } else {
                        ""
                    };
                    out.fail(format!("{}{}", class, qual), format!("{}\n{}goal: {}\nslg: {}\nrec: {}", msg, low.text, lg.text, ra, rb));
                }
                let definite = |s: &Option<Solution<_>>| matches!(s, None | Some(Solution::Unique(_)));
                if ra != rb {
                    out.bump("rendered_answers_differ");
                }
                if ((definite(&a) || definite(&b)) && goal_has_structure(g)) || ra != rb {
                    out.nontrivial.push(hash_of(&(&low.text, &lg.text)));
                    if out.sample.is_none() || ra != rb {
                        out.sample = Some(json!({"program": low.text, "goal": lg.text, "slg": ra, "rec": rb}));
                    }
                }
            }
        });
        out
    }
}
