//! C01 — definite answers match the program's logical meaning.
use super::common::*;
use crate::drive::*;
use crate::gen::*;
use crate::model::*;
use crate::refsem::*;
use crate::runner::*;
use crate::tape::Tape;
use serde_json::{json, Value};

pub struct C01;

pub fn decode_pg(t: &mut Tape, cfg: &GenCfg, gcfg: &GoalCfg, ngoals: usize) -> PG {
    // shape knob: dense coinductive cycles over a few ground types
    if cfg.coinductive && t.chance(25) {
        let program = gen_dense_coinductive(t);
        let goals = (0..ngoals).map(|_| gen_dense_goal(t, &program)).collect();
        return PG { program, goals };
    }
    // shape knob: several constraints on one unknown (only where goals may have unknowns)
    if gcfg.exists && t.chance(25) {
        let program = gen_conj_program(t);
        let goals = (0..ngoals).map(|_| gen_conj_goal(t, &program)).collect();
        return PG { program, goals };
    }
    // shape knob: several answers over a two-parameter constructor (answers that agree in one argument and differ in
    // the other are what the aggregation of answers has to get right)
    if gcfg.exists && t.chance(15) {
        let program = gen_pair_program(t);
        let goals = (0..ngoals).map(|_| gen_pair_goal(t, &program)).collect();
        return PG { program, goals };
    }
    let program = gen_program(t, cfg);
    let goals = (0..ngoals).map(|_| gen_goal(t, &program, gcfg)).collect();
    PG { program, goals }
}

impl Property for C01 {
    type Case = PG;
    fn id(&self) -> &'static str {
        "C01"
    }
    fn rule(&self) -> String {
        "case = generated F-horn(+auto/coinductive) program with 4 goals (trait predicates, =, exists, forall, if, not, conjunction), solved by SLG and recursive solver and compared with a reference ground evaluator over the bounded Herbrand universe (depth 2 quick / 3 thorough). Non-trivial = (program, goal, solver) where the goal has a quantifier/if/not/conjunction or existential variable, the oracle produced >=1 definite instance (|S|+|N|>=1) and the solver answered Unique, None or Ambiguous-with-definite-guidance; distinct by hash of (program text, goal text, solver).".into()
    }
    fn assumptions(&self) -> Vec<String> {
        vec![
            "reference semantics (harness/src/refsem.rs) is the logical meaning: LFP for ordinary traits, GFP for coinductive/auto, strong-Kleene 3-valued with exploration budget".into(),
            "solutions that exist only outside the bounded universe are invisible to the completeness direction".into(),
            "`not` over goals or environments with placeholders is not judged (chalk's documented inversion differs from the opaque-constant reading)".into(),
        ]
    }
    fn cases_per_shard(&self, tier: Tier) -> u32 {
        tier.pick(600, 6000)
    }
    fn decode(&self, t: &mut Tape, _tier: Tier) -> PG {
        let cfg = if t.chance(50) { GenCfg::horn_auto() } else { GenCfg::horn() };
        decode_pg(t, &cfg, &GoalCfg::full(), 4)
    }
    fn describe(&self, case: &PG) -> Value {
        case.describe()
    }
    fn shrink(&self, case: &PG) -> Vec<PG> {
        case.shrink()
    }
    fn run(&self, case: &PG, tier: Tier) -> CaseOut {
        let mut out = CaseOut::default();
        let low = match lower_pg(case, &mut out) {
            Some(l) => l,
            None => return out,
        };
        let names = Names { program: &low.program, model: &case.program };
        let depth = tier.pick(2, 3);
        with_program(&low, || {
            for (gi, g) in case.goals.iter().enumerate() {
                let lg = match &low.goals[gi] {
                    Some(x) => x,
                    None => continue,
                };
                let sets = solution_sets(&case.program, g, depth, tier.pick(400, 1500));
                if sets.st.incomplete {
                    out.bump("oracle_incomplete");
                }
                if sets.st.neg_with_ph {
                    out.bump("semantics_ambiguous(not with placeholders)");
                }
                if sets.st.cycle {
                    out.bump("goals_with_cyclic_derivation");
                }
                for sv in Sv::BOTH {
                    out.evals += 1;
                    let (run, work) = solve_fresh(&*low.program, sv.choice(), &lg.peeled.goal, DEFAULT_BUDGET);
                    out.max(&format!("work:{}", sv.name()), work);
                    out.bump(&format!("work:{}:{}", sv.name(), work_bucket(work)));
                    let sol = match run {
                        Run::Done(s) => s,
                        Run::Overflow => {
                            out.bump(&format!("{}:overflow", sv.name()));
                            continue;
                        }
                        Run::Budget => {
                            out.bump(&format!("{}:budget_exceeded(not judged here, see C09)", sv.name()));
                            continue;
                        }
                        Run::Panic(m) => {
                            out.fail(format!("{}:panic:{}", sv.name(), m), format!("[{}] panic {}\n{}goal: {}", sv.name(), m, low.text, lg.text));
                            continue;
                        }
                    };
                    let rendered = render(&sol);
                    let ans = match names.convert(&lg.peeled, &sol) {
                        Ok(a) => a,
                        Err(e) => {
                            out.fail(format!("{}:answer-outside-model", sv.name()), format!("[{}] {}\n{}goal: {}\nanswer: {}", sv.name(), e, low.text, lg.text, rendered));
                            continue;
                        }
                    };
                    out.bump(&format!("{}:{}", sv.name(), ans.kind()));
                    if let Some((class, msg)) = check_answer(&case.program, &lg.peeled, &ans, &sets) {
                        // one qualifier only (priority order), so that signatures stay canonical
                        let qual = if class.contains("repeated-var") {
                            ""
                        } else if sets.st.used_env && env_existential(&case.program) {
                            ":env-with-trait-params"
                        } else if sets.st.co_cycle || (program_has_co_cycle(&case.program) && !goal_is_closed(g)) {
                            co_qual_st(g, &sets.st, true)
                        } else {
                            ""
                        };
                        out.fail(format!("{}:{}{}", sv.name(), class, qual), format!("[{}] {}\n{}goal: {}\nanswer: {}", sv.name(), msg, low.text, lg.text, rendered));
                    }
                    let nontrivial = (sets.s.len() + sets.n.len()) > 0 && ans.kind() != "Ambig" && goal_has_structure(g);
                    if nontrivial {
                        out.nontrivial.push(hash_of(&(&low.text, &lg.text, sv.name())));
                        if out.sample.is_none() || (ans.kind() == "Unique" && !goal_is_closed(g)) {
                            out.sample = Some(json!({"program": low.text, "goal": lg.text, "solver": sv.name(), "answer": rendered, "oracle": {"true_instances": sets.s.len(), "false_instances": sets.n.len(), "unknown": sets.unknown, "universe_tuples": sets.total}}));
                        }
                    }
                }
            }
        });
        out
    }
}
