//! C17 — combining candidate answers only generalises; may_invalidate never wrongly says "no";
//! Solution::combine is commutative and never claims more than either candidate.
use crate::bir::*;
use crate::runner::*;
use crate::tape::Tape;
use chalk_engine::slg::verif_aggregate::{may_invalidate, merge_into_guidance};
use chalk_integration::interner::ChalkIr;
use chalk_ir::*;
use chalk_solve::{Guidance, Solution};
use serde::{Deserialize, Serialize};
use serde_json::{json, Value};
use std::collections::BTreeMap;

pub struct C17;

#[derive(Clone, Debug, Serialize, Deserialize)]
pub struct Case {
    /// kinds of the query variables
    pub kinds: Vec<K>,
    /// candidate answers: one entry per query variable; Bound(0,k) = canonical variable of the answer
    pub answers: Vec<Vec<BG>>,
    /// shapes for the Solution::combine part: 0 Unique, 1 Definite, 2 Suggested, 3 Unknown
    pub shapes: (u8, u8),
}

// ---- chalk -> mirror (restricted to what the anti-unifier can produce from generated answers)
fn from_l(l: &Lifetime<ChalkIr>) -> Option<BL> {
    Some(match l.data(I) {
        LifetimeData::Static => BL::Static,
        LifetimeData::Erased => BL::Erased,
        LifetimeData::Error => BL::Error,
        LifetimeData::BoundVar(b) => BL::Bound(b.debruijn.depth() as usize, b.index),
        LifetimeData::Placeholder(p) => BL::Ph(p.ui.counter, p.idx),
        LifetimeData::InferenceVar(v) => BL::Infer(v.index()),
        _ => return None,
    })
}
fn from_c(c: &Const<ChalkIr>) -> Option<BC> {
    let d = c.data(I);
    let v = match &d.value {
        ConstValue::Concrete(x) => BCv::Val(x.interned),
        ConstValue::BoundVar(b) => BCv::Bound(b.debruijn.depth() as usize, b.index),
        ConstValue::Placeholder(p) => BCv::Ph(p.ui.counter, p.idx),
        ConstValue::InferenceVar(v) => BCv::Infer(v.index()),
    };
    Some(BC { cty: 0, v })
}
fn from_g(g: &GenericArg<ChalkIr>) -> Option<BG> {
    Some(match g.data(I) {
        GenericArgData::Ty(t) => BG::T(from_t(t)?),
        GenericArgData::Lifetime(l) => BG::L(from_l(l)?),
        GenericArgData::Const(c) => BG::C(from_c(c)?),
    })
}
fn from_s(s: &Substitution<ChalkIr>) -> Option<Vec<BG>> {
    s.iter(I).map(from_g).collect()
}
fn from_t(t: &Ty<ChalkIr>) -> Option<BT> {
    Some(match t.kind(I) {
        TyKind::Adt(id, s) => BT::Adt(id.0.index, from_s(s)?),
        TyKind::AssociatedType(id, s) => BT::AssocTy(id.0.index, from_s(s)?),
        TyKind::OpaqueType(id, s) => BT::OpaqueTy(id.0.index, from_s(s)?),
        TyKind::FnDef(id, s) => BT::FnDef(id.0.index, from_s(s)?),
        TyKind::Tuple(_, s) => BT::Tuple(s.iter(I).map(|a| a.ty(I).and_then(from_t)).collect::<Option<_>>()?),
        TyKind::Array(x, c) => BT::Array(Box::new(from_t(x)?), from_c(c)?),
        TyKind::Slice(x) => BT::Slice(Box::new(from_t(x)?)),
        TyKind::Raw(m, x) => BT::Raw(*m == Mutability::Mut, Box::new(from_t(x)?)),
        TyKind::Ref(m, l, x) => BT::Ref(*m == Mutability::Mut, from_l(l)?, Box::new(from_t(x)?)),
        TyKind::Scalar(_) => BT::Scalar,
        TyKind::Str => BT::Str,
        TyKind::Never => BT::Never,
        TyKind::Foreign(id) => BT::Foreign(id.0.index),
        TyKind::Placeholder(p) => BT::Placeholder(p.ui.counter, p.idx),
        TyKind::BoundVar(b) => BT::Bound(b.debruijn.depth() as usize, b.index),
        TyKind::Alias(AliasTy::Projection(p)) => BT::Proj(p.associated_ty_id.0.index, from_s(&p.substitution)?),
        TyKind::Alias(AliasTy::Opaque(p)) => BT::Opaque(p.opaque_ty_id.0.index, from_s(&p.substitution)?),
        _ => return None,
    })
}

/// one-way matching: `inst` is an instance of `pat`, whose Bound(0,k) are pattern variables
/// (variables of `inst` are opaque constants)
pub fn instance_of(pat: &[BG], inst: &[BG]) -> bool {
    fn l(p: &BL, i: &BL, b: &mut BTreeMap<usize, BG>) -> bool {
        match p {
            BL::Bound(0, k) => bind(*k, BG::L(i.clone()), b),
            _ => p == i,
        }
    }
    fn c(p: &BC, i: &BC, b: &mut BTreeMap<usize, BG>) -> bool {
        match &p.v {
            BCv::Bound(0, k) => bind(*k, BG::C(i.clone()), b),
            _ => p.v == i.v,
        }
    }
    fn bind(k: usize, v: BG, b: &mut BTreeMap<usize, BG>) -> bool {
        match b.get(&k) {
            Some(x) => *x == v,
            None => {
                b.insert(k, v);
                true
            }
        }
    }
    fn args(p: &[BG], i: &[BG], b: &mut BTreeMap<usize, BG>) -> bool {
        p.len() == i.len() && p.iter().zip(i).all(|(x, y)| g(x, y, b))
    }
    fn g(p: &BG, i: &BG, b: &mut BTreeMap<usize, BG>) -> bool {
        match (p, i) {
            (BG::T(x), BG::T(y)) => t(x, y, b),
            (BG::L(x), BG::L(y)) => l(x, y, b),
            (BG::C(x), BG::C(y)) => c(x, y, b),
            _ => false,
        }
    }
    fn t(p: &BT, i: &BT, b: &mut BTreeMap<usize, BG>) -> bool {
        match (p, i) {
            (BT::Bound(0, k), _) => bind(*k, BG::T(i.clone()), b),
            (BT::Adt(x, a), BT::Adt(y, c2)) | (BT::AssocTy(x, a), BT::AssocTy(y, c2)) | (BT::OpaqueTy(x, a), BT::OpaqueTy(y, c2)) | (BT::FnDef(x, a), BT::FnDef(y, c2)) | (BT::Proj(x, a), BT::Proj(y, c2)) | (BT::Opaque(x, a), BT::Opaque(y, c2)) => x == y && args(a, c2, b),
            (BT::Tuple(a), BT::Tuple(c2)) => a.len() == c2.len() && a.iter().zip(c2).all(|(x, y)| t(x, y, b)),
            (BT::Array(x, cx), BT::Array(y, cy)) => t(x, y, b) && c(cx, cy, b),
            (BT::Slice(x), BT::Slice(y)) => t(x, y, b),
            (BT::Raw(m, x), BT::Raw(n, y)) => m == n && t(x, y, b),
            (BT::Ref(m, lx, x), BT::Ref(n, ly, y)) => m == n && l(lx, ly, b) && t(x, y, b),
            _ => p == i,
        }
    }
    let mut b = BTreeMap::new();
    args(pat, inst, &mut b)
}

/// equality up to a consistent renaming of Bound(0,k) variables (both directions)
fn alpha_eq(a: &[BG], b: &[BG]) -> bool {
    instance_of(a, b) && instance_of(b, a)
}

fn gen_answer(t: &mut Tape, kinds: &[K], base: Option<&Vec<BG>>) -> Vec<BG> {
    // answers are variations of a common base so that they agree in places (interesting anti-unification)
    kinds
        .iter()
        .enumerate()
        .map(|(i, k)| {
            if let Some(b) = base {
                if !t.chance(60) {
                    return b[i].clone();
                }
                // vary a sub-term of the base entry, so that answers agree at the root and differ below it
                if let BG::T(bt) = &b[i] {
                    if t.chance(70) {
                        return BG::T(mutate(t, bt));
                    }
                }
            }
            let mut g = Gen { t, stack: vec![vec![K::Ty, K::Ty, K::Lt, K::Ct]], exotic: false };
            match k {
                K::Ty => BG::T(strip(&g.ty(3))),
                K::Lt => match strip(&BT::Ref(false, g.l(), Box::new(BT::Scalar))) {
                    BT::Ref(_, l, _) => BG::L(l),
                    _ => BG::L(BL::Static),
                },
                K::Ct => match strip(&BT::Array(Box::new(BT::Scalar), g.c())) {
                    BT::Array(_, c) => BG::C(c),
                    _ => BG::C(BC { cty: 0, v: BCv::Val(0) }),
                },
            }
        })
        .collect()
}

/// does the rendered substitution mention some canonical variable `^0.k` more than once?
fn shares_variable(r: &str) -> bool {
    // `r` is the Debug rendering of the mirror AST (chalk's own Debug hides alias arguments)
    (0..8).any(|k| r.matches(&format!("Bound(0, {})", k)).count() > 1)
}

/// replace one randomly chosen sub-term by a variable or a small closed type
fn mutate(t: &mut Tape, ty: &BT) -> BT {
    let leaf = |t: &mut Tape| -> BT { [BT::Bound(0, 0), BT::Bound(0, 1), BT::Scalar, BT::Str, BT::Never, BT::Placeholder(1, 0)][t.choose(6)].clone() };
    let go_g = |t: &mut Tape, a: &Vec<BG>| -> Vec<BG> {
        if a.is_empty() {
            return a.clone();
        }
        let k = t.choose(a.len());
        a.iter().enumerate().map(|(i, g)| if i == k { if let BG::T(x) = g { BG::T(mutate(t, x)) } else { g.clone() } } else { g.clone() }).collect()
    };
    if t.chance(35) {
        return leaf(t);
    }
    match ty {
        BT::Adt(i, a) if !a.is_empty() => BT::Adt(*i, go_g(t, a)),
        BT::AssocTy(i, a) if !a.is_empty() => BT::AssocTy(*i, go_g(t, a)),
        BT::OpaqueTy(i, a) if !a.is_empty() => BT::OpaqueTy(*i, go_g(t, a)),
        BT::FnDef(i, a) if !a.is_empty() => BT::FnDef(*i, go_g(t, a)),
        BT::Proj(i, a) if !a.is_empty() => BT::Proj(*i, go_g(t, a)),
        BT::Opaque(i, a) if !a.is_empty() => BT::Opaque(*i, go_g(t, a)),
        BT::Tuple(a) if !a.is_empty() => {
            let k = t.choose(a.len());
            BT::Tuple(a.iter().enumerate().map(|(i, x)| if i == k { mutate(t, x) } else { x.clone() }).collect())
        }
        BT::Array(x, c) => BT::Array(Box::new(mutate(t, x)), c.clone()),
        BT::Slice(x) => BT::Slice(Box::new(mutate(t, x))),
        BT::Raw(m, x) => BT::Raw(*m, Box::new(mutate(t, x))),
        BT::Ref(m, l, x) => BT::Ref(*m, l.clone(), Box::new(mutate(t, x))),
        _ => leaf(t),
    }
}

pub fn strip_pub(t: &BT) -> BT {
    strip(t)
}

/// keep answers inside the fragment the matcher understands: no fn/dyn binders, no dangling outer variables
fn strip(t: &BT) -> BT {
    fn l(x: &BL) -> BL {
        match x {
            BL::Bound(d, _) if *d > 0 => BL::Static,
            o => o.clone(),
        }
    }
    fn c(x: &BC) -> BC {
        match &x.v {
            BCv::Bound(d, _) if *d > 0 => BC { cty: 0, v: BCv::Val(1) },
            _ => BC { cty: 0, v: x.v.clone() },
        }
    }
    fn g(x: &BG) -> BG {
        match x {
            BG::T(y) => BG::T(strip(y)),
            BG::L(y) => BG::L(l(y)),
            BG::C(y) => BG::C(c(y)),
        }
    }
    match t {
        BT::Fn(..) | BT::Dyn(..) => BT::Scalar,
        BT::Bound(d, _) if *d > 0 => BT::Never,
        BT::Adt(i, a) => BT::Adt(*i, a.iter().map(g).collect()),
        BT::AssocTy(i, a) => BT::AssocTy(*i, a.iter().map(g).collect()),
        BT::OpaqueTy(i, a) => BT::OpaqueTy(*i, a.iter().map(g).collect()),
        BT::FnDef(i, a) => BT::FnDef(*i, a.iter().map(g).collect()),
        BT::Proj(i, a) => BT::Proj(*i, a.iter().map(g).collect()),
        BT::Opaque(i, a) => BT::Opaque(*i, a.iter().map(g).collect()),
        BT::Tuple(a) => BT::Tuple(a.iter().map(strip).collect()),
        BT::Array(x, cc) => BT::Array(Box::new(strip(x)), c(cc)),
        BT::Slice(x) => BT::Slice(Box::new(strip(x))),
        BT::Raw(m, x) => BT::Raw(*m, Box::new(strip(x))),
        BT::Ref(m, ll, x) => BT::Ref(*m, l(ll), Box::new(strip(x))),
        o => o.clone(),
    }
}

/// canonical binders for an answer: kinds of its Bound(0,k) variables (generator stack: Ty, Ty, Lt, Ct)
fn answer_binders() -> CanonicalVarKinds<ChalkIr> {
    let ks = [K::Ty, K::Ty, K::Lt, K::Ct];
    CanonicalVarKinds::from_iter(
        I,
        ks.iter().map(|k| {
            CanonicalVarKind::new(
                match k {
                    K::Ty => VariableKind::Ty(TyVariableKind::General),
                    K::Lt => VariableKind::Lifetime,
                    K::Ct => VariableKind::Const(TyKind::Scalar(Scalar::Uint(UintTy::Usize)).intern(I)),
                },
                UniverseIndex::ROOT,
            )
        }),
    )
}

fn canon_subst(a: &[BG]) -> Canonical<Substitution<ChalkIr>> {
    Canonical { value: subst(a), binders: answer_binders() }
}
fn canon_answer(a: &[BG]) -> Canonical<ConstrainedSubst<ChalkIr>> {
    Canonical { value: ConstrainedSubst { subst: subst(a), constraints: Constraints::empty(I) }, binders: answer_binders() }
}

fn root_goal(kinds_: &[K]) -> Canonical<InEnvironment<Goal<ChalkIr>>> {
    Canonical {
        value: InEnvironment::new(&Environment::new(I), GoalData::CannotProve.intern(I)),
        binders: CanonicalVarKinds::from_iter(
            I,
            kinds_.iter().map(|k| {
                CanonicalVarKind::new(
                    match k {
                        K::Ty => VariableKind::Ty(TyVariableKind::General),
                        K::Lt => VariableKind::Lifetime,
                        K::Ct => VariableKind::Const(TyKind::Scalar(Scalar::Uint(UintTy::Usize)).intern(I)),
                    },
                    UniverseIndex::ROOT,
                )
            }),
        ),
    }
}

/// instantiate the answer's variables with closed terms (a random instance)
fn instantiate(t: &mut Tape, a: &[BG]) -> Vec<BG> {
    let closed_ty = [BT::Scalar, BT::Str, BT::Adt(0, vec![]), BT::Tuple(vec![BT::Never]), BT::Placeholder(1, 0)];
    let params: Vec<BG> = vec![BG::T(closed_ty[t.choose(5)].clone()), BG::T(closed_ty[t.choose(5)].clone()), BG::L(if t.chance(50) { BL::Static } else { BL::Ph(1, 1) }), BG::C(BC { cty: 0, v: BCv::Val(t.choose(3) as u32) })];
    a.iter().map(|g| map_g(g, 0, &mut SubstMap(&params)).unwrap()).collect()
}

fn strength(s: &Solution<ChalkIr>) -> u8 {
    match s {
        Solution::Unique(_) => 3,
        Solution::Ambig(Guidance::Definite(_)) => 2,
        Solution::Ambig(Guidance::Suggested(_)) => 1,
        Solution::Ambig(Guidance::Unknown) => 0,
    }
}

fn mk_solution(shape: u8, a: &[BG]) -> Solution<ChalkIr> {
    match shape {
        0 => Solution::Unique(canon_answer(a)),
        1 => Solution::Ambig(Guidance::Definite(canon_subst(a))),
        2 => Solution::Ambig(Guidance::Suggested(canon_subst(a))),
        _ => Solution::Ambig(Guidance::Unknown),
    }
}

impl Property for C17 {
    type Case = Case;
    fn id(&self) -> &'static str {
        "C17"
    }
    fn rule(&self) -> String {
        "case = 1-3 query variables (type / lifetime / const) and a sequence of 2-4 canonical answer substitutions over every type constructor (ADT, associated-type and opaque placeholders, fn def, tuple, array with const, slice, raw pointer, reference, scalar, str, never, foreign, placeholder, projection and opaque aliases), placeholders, consts and lifetimes, built as variations of a common base so that they agree in places and share variables; plus two solution shapes (unique / definite / suggested / unknown). Oracle via the cfg(chalk_verif) hook: folding the answers with merge_into_guidance, every merged answer is an instance of the result (independent one-way matcher on the mirror AST); whenever may_invalidate(new, current) is false, merging `new` and random closed instances of `new` into `current` must already be instances of `current` (the guidance stays valid). Public Solution::combine: combine(a,b) = combine(b,a) and the result is not stronger than the stronger input under Unique > Definite > Suggested > Unknown. Non-trivial = two answers that differ below the root of some entry (same head constructor, different arguments) or share a variable; distinct by hash of the case.".into()
    }
    fn assumptions(&self) -> Vec<String> {
        vec!["lifetimes in the merged guidance are always fresh variables (documented: guidance ignores lifetimes)".into(), "the documented special case of combine (a trivially true Unique wins) is allowed".into()]
    }
    fn cases_per_shard(&self, tier: Tier) -> u32 {
        tier.pick(2000, 40000)
    }
    fn tape_len(&self, _tier: Tier) -> usize {
        400
    }
    fn decode(&self, t: &mut Tape, _tier: Tier) -> Case {
        let n = 1 + t.choose(3);
        let kinds: Vec<K> = (0..n).map(|_| [K::Ty, K::Ty, K::Ty, K::Lt, K::Ct][t.choose(5)]).collect();
        let base = gen_answer(t, &kinds, None);
        let na = 2 + t.choose(3);
        let mut answers = vec![base.clone()];
        for _ in 1..na {
            answers.push(gen_answer(t, &kinds, Some(&base)));
        }
        Case { kinds, answers, shapes: (t.choose(4) as u8, t.choose(4) as u8) }
    }
    fn describe(&self, c: &Case) -> Value {
        json!({"query_variable_kinds": format!("{:?}", c.kinds), "answers": c.answers.iter().map(|a| format!("{:?}", subst(a))).collect::<Vec<_>>(), "solution_shapes": [c.shapes.0, c.shapes.1]})
    }
    fn shrink(&self, c: &Case) -> Vec<Case> {
        let mut out = vec![];
        if c.answers.len() > 2 {
            for i in 0..c.answers.len() {
                let mut q = c.clone();
                q.answers.remove(i);
                out.push(q);
            }
        }
        if c.kinds.len() > 1 {
            for i in 0..c.kinds.len() {
                let mut q = c.clone();
                q.kinds.remove(i);
                for a in q.answers.iter_mut() {
                    a.remove(i);
                }
                out.push(q);
            }
        }
        out
    }
    fn run(&self, case: &Case, _tier: Tier) -> CaseOut {
        let mut out = CaseOut::default();
        out.evals = 1;
        let root = root_goal(&case.kinds);
        let show = |a: &[BG]| format!("{:?}", subst(a));
        let r = crate::drive::catch(|| {
            let mut fails: Vec<(String, String)> = vec![];
            // fold the answers into guidance
            let mut cur = canon_subst(&case.answers[0]);
            let mut merged: Vec<&Vec<BG>> = vec![&case.answers[0]];
            for (ai, a) in case.answers.iter().enumerate().skip(1) {
                let inval = may_invalidate(I, &subst(a), &cur);
                let next = merge_into_guidance(I, &root, cur.clone(), &canon_answer(a));
                merged.push(a);
                let next_m = from_s(&next.value);
                let cur_m = from_s(&cur.value);
                match (&next_m, &cur_m) {
                    (Some(nm), Some(cm)) => {
                        for m in &merged {
                            if !instance_of(nm, m) {
                                fails.push(("merged-answer-not-instance-of-guidance".into(), format!("after merging answer #{} the guidance is {:?}, but the merged answer {} is not an instance of it\nanswers: {:?}", ai, next.value, show(m), case.answers.iter().map(|a| show(a)).collect::<Vec<_>>())));
                                break;
                            }
                        }
                        if !instance_of(nm, cm) {
                            fails.push(("guidance-not-generalised".into(), format!("previous guidance {:?} is not an instance of the new guidance {:?}", cur.value, next.value)));
                        }
                        // "cannot invalidate" must mean: the current guidance already covers the new answer
                        // (the anti-unifier may still lose variable sharing when it merges, which only weakens)
                        if !inval && !from_s(&subst(a)).map(|am| instance_of(cm, &am)).unwrap_or(true) {
                            let shared = if shares_variable(&format!("{:?}", cm)) { ":guidance-shares-a-variable" } else { "" };
                            fails.push((format!("may-invalidate-false-but-answer-not-covered{}", shared), format!("may_invalidate({}, {:?}) = false, but the answer is not an instance of that guidance (merging gives {:?})", show(a), cur.value, next.value)));
                        }
                    }
                    _ => {}
                }
                cur = next;
            }
            // may_invalidate = false must also hold for every instance of `new`
            let cur0 = canon_subst(&case.answers[0]);
            let mut tape_bytes = vec![];
            for a in &case.answers {
                tape_bytes.extend(format!("{:?}", a).bytes().rev().take(24));
            }
            let mut t2 = Tape::new(&tape_bytes);
            for a in case.answers.iter().skip(1) {
                if !may_invalidate(I, &subst(a), &cur0) {
                    let cm = from_s(&cur0.value);
                    for _ in 0..3 {
                        let inst = instantiate(&mut t2, a);
                        let next = merge_into_guidance(I, &root, cur0.clone(), &canon_answer(&inst));
                        if let (Some(nm), Some(cm)) = (from_s(&next.value), cm.as_ref()) {
                            let _ = &nm;
                            if !instance_of(cm, &inst) {
                                let shared = if shares_variable(&format!("{:?}", cm)) { ":guidance-shares-a-variable" } else { "" };
                                fails.push((format!("may-invalidate-false-but-instance-not-covered{}", shared), format!("may_invalidate({}, {:?}) = false, but its instance {} is not an instance of that guidance (merging gives {:?})", show(a), cur0.value, show(&inst), next.value)));
                                break;
                            }
                        }
                    }
                }
            }
            // Solution::combine
            let (s1, s2) = (mk_solution(case.shapes.0, &case.answers[0]), mk_solution(case.shapes.1, &case.answers[1]));
            let ab = s1.clone().combine(s2.clone(), I);
            let ba = s2.clone().combine(s1.clone(), I);
            if ab != ba && !(s1.is_trivial_and_always_true(I) && s2.is_trivial_and_always_true(I)) {
                fails.push(("combine-not-commutative".into(), format!("combine({:?}, {:?}) = {:?} but the other order gives {:?}", s1, s2, ab, ba)));
            }
            if strength(&ab) > strength(&s1).max(strength(&s2)) {
                fails.push(("combine-claims-more".into(), format!("combine({:?}, {:?}) = {:?}", s1, s2, ab)));
            }
            if s1 != s2 && matches!(ab, Solution::Unique(_)) && !s1.is_trivial_and_always_true(I) && !s2.is_trivial_and_always_true(I) {
                fails.push(("combine-unique-from-different-candidates".into(), format!("combine({:?}, {:?}) = {:?}", s1, s2, ab)));
            }
            fails
        });
        match r {
            Ok(fails) => {
                for (sig, msg) in fails {
                    out.fail(sig, msg);
                }
            }
            Err(m) => out.fail(format!("panic:{}", m), format!("panic {} on {:?}", m, self.describe(case))),
        }
        // non-triviality: two answers differing below the root of an entry, or a shared variable
        let differs_below_root = case.answers.windows(2).any(|w| {
            w[0].iter().zip(&w[1]).any(|(x, y)| match (x, y) {
                (BG::T(a), BG::T(b)) => a != b && std::mem::discriminant(a) == std::mem::discriminant(b) && !matches!(a, BT::Bound(..) | BT::Placeholder(..)),
                _ => false,
            })
        });
        if differs_below_root {
            out.nontrivial.push(hash_of(&format!("{:?}", case)));
            if out.sample.is_none() {
                out.sample = Some(self.describe(case));
            }
        }
        out
    }
}
