//! Shared pieces of the solver-level properties.
use crate::drive::*;
use crate::gen;
use crate::model::*;
use crate::refsem::*;
use crate::runner::*;
use chalk_integration::program::Program as CProgram;
use serde::{Deserialize, Serialize};
use serde_json::{json, Value};
use std::sync::Arc;

/// program + goals: the case type of most solver-level properties
#[derive(Clone, Debug, Serialize, Deserialize)]
pub struct PG {
    pub program: Program,
    pub goals: Vec<Goal>,
}

impl PG {
    pub fn describe(&self) -> Value {
        json!({
            "program": print_program(&self.program),
            "goals": self.goals.iter().map(|g| print_goal(&self.program, g)).collect::<Vec<_>>(),
        })
    }
    pub fn shrink(&self) -> Vec<PG> {
        let mut out = vec![];
        if self.goals.len() > 1 {
            for i in 0..self.goals.len() {
                let mut q = self.clone();
                q.goals.remove(i);
                out.push(q);
            }
        }
        for p in gen::shrink_program(&self.program) {
            if self.goals.iter().all(|g| gen::goal_traits_ok(g, p.traits.len())) {
                out.push(PG { program: p, goals: self.goals.clone() });
            }
        }
        for (i, g) in self.goals.iter().enumerate() {
            for g2 in gen::shrink_goal(g) {
                let mut q = self.clone();
                q.goals[i] = g2;
                out.push(q);
            }
        }
        out
    }
}

pub struct LoweredGoal {
    pub text: String,
    pub peeled: Peeled,
}

pub struct Lowered {
    pub text: String,
    pub program: Arc<CProgram>,
    pub goals: Vec<Option<LoweredGoal>>,
}

/// Lower the case through chalk's real pipeline. A lowering error on a generated, well-scoped
/// program is reported as a failure (harness or chalk bug), never swallowed.
pub fn lower_pg(pg: &PG, out: &mut CaseOut) -> Option<Lowered> {
    let text = print_program(&pg.program);
    let program = match catch(|| lower_program(&text)) {
        Ok(Ok(p)) => p,
        Ok(Err(e)) => {
            out.fail("lowering/program-rejected", format!("generated program does not lower: {}\n{}", e, text));
            return None;
        }
        Err(m) => {
            out.fail(format!("lowering/panic:{}", m), format!("lowering panicked: {}\n{}", m, text));
            return None;
        }
    };
    let mut goals = vec![];
    for g in &pg.goals {
        let gt = print_goal(&pg.program, g);
        let r = chalk_integration::tls::set_current_program(&program, || catch(|| parse_and_peel(&program, &gt)));
        match r {
            Ok(Ok(peeled)) => goals.push(Some(LoweredGoal { text: gt, peeled })),
            Ok(Err(e)) => {
                out.fail("lowering/goal-rejected", format!("generated goal does not lower: {}\n{}\ngoal: {}", e, text, gt));
                goals.push(None);
            }
            Err(m) => {
                out.fail(format!("lowering/panic:{}", m), format!("goal lowering panicked: {}\n{}\ngoal: {}", m, text, gt));
                goals.push(None);
            }
        }
    }
    Some(Lowered { text, program, goals })
}

pub fn with_program<T>(l: &Lowered, f: impl FnOnce() -> T) -> T {
    chalk_integration::tls::set_current_program(&l.program, f)
}

pub fn show_tuple(p: &Program, t: &[Ty]) -> String {
    let pr = Printer { p, self_name: None };
    t.iter().map(|x| pr.ty(x)).collect::<Vec<_>>().join(", ")
}

/// does a canonical substitution repeat a canonical variable?
pub fn has_repeated_cvar(sub: &[Ty]) -> bool {
    fn go(t: &Ty, seen: &mut Vec<usize>, rep: &mut bool) {
        match t {
            Ty::CVar(i) => {
                if seen.contains(i) {
                    *rep = true
                } else {
                    seen.push(*i)
                }
            }
            t => t.args().iter().for_each(|x| go(x, seen, rep)),
        }
    }
    let mut seen = vec![];
    let mut rep = false;
    sub.iter().for_each(|t| go(t, &mut seen, &mut rep));
    rep
}

/// The C01 table: compare one definite answer with the oracle's solution sets.
/// Returns Some((class, message)) on a violation.
pub fn check_answer(p: &Program, peeled: &Peeled, ans: &Ans, sets: &SolutionSets) -> Option<(String, String)> {
    let project = |t: &Vec<Ty>| -> Vec<Ty> { peeled.binder_to_exvar.iter().map(|k| t[*k].clone()).collect() };
    match ans {
        Ans::Ambig => None,
        Ans::None => sets.s.first().map(|t| ("none-but-solution".to_string(), format!("'No possible solution' but ({}) is a solution", show_tuple(p, t)))),
        Ans::Unique(sub, cu) | Ans::Definite(sub, cu) => {
            if sub.len() != peeled.binder_to_exvar.len() {
                return Some(("subst-arity".into(), format!("substitution has {} entries for {} query variables", sub.len(), peeled.binder_to_exvar.len())));
            }
            let uniq = matches!(ans, Ans::Unique(..));
            for t in &sets.s {
                if !instance_of(&project(t), sub, cu) {
                    return Some((
                        format!("{}-excludes-solution{}", if uniq { "unique" } else { "definite" }, if has_repeated_cvar(sub) { ":repeated-var" } else { "" }),
                        format!("{} [{}] excludes the solution ({})", if uniq { "Unique" } else { "Definite guidance" }, show_tuple(p, sub), show_tuple(p, t)),
                    ));
                }
            }
            if uniq {
                for t in &sets.n {
                    if instance_of(&project(t), sub, cu) {
                        return Some(("unique-covers-nonsolution".into(), format!("Unique [{}] covers the non-solution ({})", show_tuple(p, sub), show_tuple(p, t))));
                    }
                }
            }
            None
        }
    }
}

pub fn goal_is_closed(g: &Goal) -> bool {
    layout(g).exvars.is_empty()
}

pub fn goal_has_structure(g: &Goal) -> bool {
    !g.prefix.is_empty() || g.body.len() > 1 || g.body.iter().any(|l| !matches!(l, Lit::Holds(_)))
}

pub fn program_has_coinduction(p: &Program) -> bool {
    p.traits.iter().any(|t| t.kind != TraitKind::Inductive)
}

// ------------------------------------------------------------------ shared solving helpers

use chalk_integration::interner::ChalkIr;
use chalk_solve::Solution;

/// Solve on a fresh solver; panics become failures, overflow/budget are counted and yield None.
pub fn solve_judged(low: &Lowered, lg: &LoweredGoal, sv: Sv, out: &mut CaseOut) -> Option<Option<Solution<ChalkIr>>> {
    solve_judged_cfg(low, lg, sv.name(), sv.choice(), out)
}

pub fn solve_judged_cfg(low: &Lowered, lg: &LoweredGoal, name: &str, choice: chalk_integration::SolverChoice, out: &mut CaseOut) -> Option<Option<Solution<ChalkIr>>> {
    out.evals += 1;
    let (run, work) = solve_fresh(&*low.program, choice, &lg.peeled.goal, DEFAULT_BUDGET);
    out.max(&format!("work:{}", name), work);
    match run {
        Run::Done(s) => Some(s),
        Run::Overflow => {
            out.bump(&format!("{}:overflow(out of contract, not judged)", name));
            None
        }
        Run::Budget => {
            out.bump(&format!("{}:budget_exceeded(not judged here, see C09)", name));
            None
        }
        Run::Panic(m) => {
            out.fail(format!("{}:panic:{}", name, m), format!("[{}] panic {}\n{}goal: {}", name, m, low.text, lg.text));
            None
        }
    }
}

/// textual normal form of a substitution for cross-solver comparison: lifetimes erased, canonical
/// variables renumbered by first occurrence
pub fn normalize_subst_text(s: &str) -> String {
    let mut out = String::new();
    let cs: Vec<char> = s.chars().collect();
    let mut i = 0;
    let mut map: Vec<String> = vec![];
    while i < cs.len() {
        let c = cs[i];
        if c == '\'' {
            // lifetime token: 'static, '!1_0, '^0.1, '?3, 'a
            let mut j = i + 1;
            while j < cs.len() && (cs[j].is_alphanumeric() || cs[j] == '_' || cs[j] == '!' || cs[j] == '^' || cs[j] == '.' || cs[j] == '?') {
                j += 1;
            }
            out.push_str("'_");
            i = j;
        } else if c == '^' {
            let mut j = i + 1;
            while j < cs.len() && (cs[j].is_ascii_digit() || cs[j] == '.') {
                j += 1;
            }
            let tok: String = cs[i..j].iter().collect();
            let k = map.iter().position(|t| *t == tok).unwrap_or_else(|| {
                map.push(tok.clone());
                map.len() - 1
            });
            out.push_str(&format!("^v{}", k));
            i = j;
        } else {
            out.push(c);
            i += 1;
        }
    }
    out
}

pub fn subst_text(s: &Solution<ChalkIr>) -> String {
    match s {
        Solution::Unique(c) => {
            // only the type/const entries matter: drop lifetime entries entirely
            let parts: Vec<String> = c.value.subst.iter(I).filter(|a| a.lifetime(I).is_none()).map(|a| format!("{:?}", a)).collect();
            normalize_subst_text(&parts.join(", "))
        }
        Solution::Ambig(chalk_solve::Guidance::Definite(c)) | Solution::Ambig(chalk_solve::Guidance::Suggested(c)) => {
            let parts: Vec<String> = c.value.iter(I).filter(|a| a.lifetime(I).is_none()).map(|a| format!("{:?}", a)).collect();
            normalize_subst_text(&parts.join(", "))
        }
        _ => String::new(),
    }
}

/// static over-approximation: the program's dependency graph between (coinductive/auto trait, type
/// constructor) pairs — impl where-clauses and auto-trait field rules — has a cycle
pub fn program_has_co_cycle(p: &Program) -> bool {
    let ctor_of = |t: &Ty| -> Option<usize> {
        match t {
            Ty::Adt(c, _) => Some(*c),
            _ => None,
        }
    };
    let nc = p.ctors.len();
    // node = ctor index (traits merged: over-approximation), plus one node for "any type" (blanket)
    let any = nc;
    let mut succ: Vec<Vec<usize>> = vec![vec![]; nc + 1];
    let co = |tr: usize| p.traits[tr].kind != TraitKind::Inductive;
    for im in &p.impls {
        if !co(im.head.tr) {
            continue;
        }
        let from = ctor_of(&im.head.args[0]).unwrap_or(any);
        for w in &im.wcs {
            if co(w.tr) {
                succ[from].push(ctor_of(&w.args[0]).unwrap_or(any));
            }
        }
    }
    if p.traits.iter().any(|t| t.kind == TraitKind::Auto) {
        for (ci, c) in p.ctors.iter().enumerate() {
            for f in c.all_fields() {
                fn heads(t: &Ty, out: &mut Vec<usize>) {
                    if let Ty::Adt(c, a) = t {
                        out.push(*c);
                        a.iter().for_each(|x| heads(x, out));
                    }
                }
                let mut hs = vec![];
                heads(f, &mut hs);
                succ[ci].extend(hs);
            }
        }
    }
    // "any" reaches and is reached by everything
    for i in 0..nc {
        if succ[i].contains(&any) || !succ[any].is_empty() {
            succ[any].push(i);
        }
    }
    // a blanket impl of a coinductive / auto trait applies to every type: every constructor can continue through it
    if p.impls.iter().any(|im| co(im.head.tr) && ctor_of(&im.head.args[0]).is_none()) {
        for i in 0..nc {
            succ[i].push(any);
        }
    }
    for s in 0..=nc {
        let mut stack = succ[s].clone();
        let mut vis = vec![false; nc + 1];
        while let Some(n) = stack.pop() {
            if n == s {
                return true;
            }
            if !vis[n] {
                vis[n] = true;
                stack.extend(succ[n].iter().copied());
            }
        }
    }
    false
}

/// An implied-bound clause of this program can introduce an existential variable when used backwards:
/// `FromEnv(WC) :- FromEnv(T: Trait<?X>)` for a trait with parameters, or `FromEnv(WC) :- FromEnv(S<?X, T>)`
/// for a struct with where-clauses and several parameters. (Qualifier of the recorded recursive-solver
/// finding; the historical name of the qualifier is `env-with-trait-params`.)
pub fn env_existential(p: &Program) -> bool {
    p.traits.iter().any(|t| t.extra > 0) || p.ctors.iter().any(|c| !c.wcs.is_empty() && c.arity >= 2)
}

/// the goal is a single trait predicate without quantifiers or hypotheses: its table is the root table
pub fn is_single_root_literal(g: &Goal) -> bool {
    g.prefix.is_empty() && g.body.len() == 1 && matches!(g.body[0], Lit::Holds(_))
}

/// qualifier for SLG failures on coinductive cycles: the recorded finding concerns coinductive tables that are
/// answered as *subgoals* (conjunctions, unknowns, hypotheses, reused solvers); a single root predicate on a
/// fresh solver is refined correctly on the unchanged tree and gets its own, unlisted class
pub fn co_qual(g: &Goal, co_cycle: bool) -> &'static str {
    if !co_cycle {
        ""
    } else if is_single_root_literal(g) {
        ":coinductive-cycle-at-root"
    } else {
        ":coinductive-cycle"
    }
}

/// Qualifier for failures on fresh solvers, from the reference derivation of the goal: the recorded SLG finding needs
/// nested / overlapping coinductive cycles (a strongly connected component that is more than one simple cycle); a failure
/// on a goal whose only coinductive cycles are simple gets its own class, which no known finding lists.
pub fn co_qual_st(g: &Goal, st: &crate::refsem::EvalStats, open_goal_on_cyclic_program: bool) -> &'static str {
    if st.co_cycle {
        // negation over a coinductive cycle is the other recorded SLG root cause (negative literal on a table whose
        // answer keeps delayed subgoals); any cycle will do there
        let has_not = g.body.iter().any(|l| matches!(l, Lit::Not(_)));
        if st.co_cycle_complex || has_not {
            co_qual(g, true)
        } else {
            ":coinductive-simple-cycle"
        }
    } else if open_goal_on_cyclic_program {
        co_qual(g, true)
    } else {
        ""
    }
}

/// the goal assumes something: an `if (..)` in its prefix or inside an inner `forall<..> { if (..) { .. } }` literal
pub fn goal_has_hypothesis(g: &Goal) -> bool {
    fn lit(l: &Lit) -> bool {
        match l {
            Lit::Inner(_, hyps, inner) => !hyps.is_empty() || lit(inner),
            Lit::Not(x) => lit(x),
            _ => false,
        }
    }
    g.prefix.iter().any(|p| matches!(p, Prefix::If(_))) || g.body.iter().any(lit)
}

/// qualifier of the recorded recursive-solver finding for differences between two runs (order, history, cache, logged
/// program): the goal has hypotheses and an implied-bound clause of the program can introduce an existential
pub fn env_qual(g: &Goal, p: &Program) -> &'static str {
    if goal_has_hypothesis(g) && env_existential(p) {
        ":env-with-trait-params"
    } else {
        ""
    }
}
