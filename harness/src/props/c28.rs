//! C28 — every returned solution is a well-formed answer for its query.
use super::common::*;
use crate::drive::*;
use crate::gen::*;
use crate::runner::*;
use crate::tape::Tape;
use chalk_integration::interner::ChalkIr;
use chalk_ir::visit::{TypeSuperVisitable, TypeVisitable, TypeVisitor};
use chalk_ir::*;
use chalk_solve::{Guidance, Solution, SubstitutionResult};
use serde::{Deserialize, Serialize};
use serde_json::{json, Value};
use std::ops::ControlFlow;

pub struct C28;

#[derive(Clone, Debug, Serialize, Deserialize)]
pub enum Case {
    Horn(PG),
    /// text-level case over the fixed rich program (lifetime / const / int-float unknowns)
    Rich(Vec<String>),
}

struct Walk {
    nbinders: usize,
    max_universe: usize,
    problems: Vec<String>,
    /// indices of the solution's own binders that are referred to
    used: Vec<usize>,
}

impl TypeVisitor<ChalkIr> for Walk {
    type BreakTy = ();
    fn as_dyn(&mut self) -> &mut dyn TypeVisitor<ChalkIr, BreakTy = ()> {
        self
    }
    fn visit_free_var(&mut self, bv: BoundVar, _outer: DebruijnIndex) -> ControlFlow<()> {
        if bv.debruijn != DebruijnIndex::INNERMOST || bv.index >= self.nbinders {
            self.problems.push(format!("bound variable {:?} is not bound by the solution's own binder list of length {}", bv, self.nbinders));
        } else {
            self.used.push(bv.index);
        }
        ControlFlow::Continue(())
    }
    fn visit_free_placeholder(&mut self, p: PlaceholderIndex, _outer: DebruijnIndex) -> ControlFlow<()> {
        if p.ui.counter >= self.max_universe {
            self.problems.push(format!("placeholder {:?} is in a universe the query cannot name (query has {} universes)", p, self.max_universe));
        }
        ControlFlow::Continue(())
    }
    fn visit_inference_var(&mut self, v: InferenceVar, _outer: DebruijnIndex) -> ControlFlow<()> {
        self.problems.push(format!("inference variable {:?} leaked into the solution", v));
        ControlFlow::Continue(())
    }
    fn visit_ty(&mut self, ty: &Ty<ChalkIr>, outer: DebruijnIndex) -> ControlFlow<()> {
        if let TyKind::InferenceVar(v, _) = ty.kind(I) {
            self.problems.push(format!("inference variable {:?} leaked into the solution", v));
            return ControlFlow::Continue(());
        }
        if let TyKind::BoundVar(bv) = ty.kind(I) {
            if let Some(b) = bv.shifted_out_to(outer) {
                return self.visit_free_var(b, outer);
            }
            return ControlFlow::Continue(());
        }
        if let TyKind::Placeholder(p) = ty.kind(I) {
            return self.visit_free_placeholder(*p, outer);
        }
        ty.super_visit_with(self.as_dyn(), outer)
    }
    fn interner(&self) -> ChalkIr {
        ChalkIr
    }
}

fn kind_matches(k: &VariableKind<ChalkIr>, a: &GenericArg<ChalkIr>) -> bool {
    match (k, a.data(I)) {
        (VariableKind::Ty(_), GenericArgData::Ty(_)) => true,
        (VariableKind::Lifetime, GenericArgData::Lifetime(_)) => true,
        (VariableKind::Const(_), GenericArgData::Const(_)) => true,
        _ => false,
    }
}

/// structural validity of a canonical substitution (+ optional constraints) as an answer to `goal`
pub fn wf_problems(goal: &UGoal, binders: &CanonicalVarKinds<ChalkIr>, subst: &Substitution<ChalkIr>, constraints: Option<&Constraints<ChalkIr>>) -> Vec<String> {
    let mut problems = vec![];
    let qb = goal.canonical.binders.as_slice(I);
    if subst.len(I) != qb.len() {
        problems.push(format!("substitution has {} entries but the query has {} unknowns", subst.len(I), qb.len()));
        return problems;
    }
    for (i, (b, a)) in qb.iter().zip(subst.iter(I)).enumerate() {
        if !kind_matches(&b.kind, a) {
            problems.push(format!("entry {} has the wrong kind: binder {:?}, value {:?}", i, b.kind, a));
        }
    }
    let mut w = Walk { nbinders: binders.len(I), max_universe: goal.universes, problems: vec![], used: vec![] };
    let _ = subst.visit_with(&mut w, DebruijnIndex::INNERMOST);
    // "its substitution uses no universe the query cannot name": only binders the substitution refers to count (a
    // left-over binder that nothing mentions is not used by the substitution)
    for (i, b) in binders.iter(I).enumerate() {
        if b.skip_kind().counter >= goal.universes && w.used.contains(&i) {
            problems.push(format!("the substitution uses solution variable ^0.{} of universe {} but the query only has {} universes", i, b.skip_kind().counter, goal.universes));
        }
    }
    // constraints may mention placeholders of any query universe; bound variables must still be the solution's own
    if let Some(c) = constraints {
        let mut w2 = Walk { nbinders: binders.len(I), max_universe: usize::MAX, problems: vec![], used: vec![] };
        let _ = c.visit_with(&mut w2, DebruijnIndex::INNERMOST);
        w.problems.extend(w2.problems);
    }
    problems.extend(w.problems);
    if problems.is_empty() {
        // applying the substitution to the query must not fail
        let r = catch(|| subst.apply(goal.canonical.value.clone(), I));
        if let Err(m) = r {
            problems.push(format!("applying the substitution to the query panics: {}", m));
        }
    }
    problems
}

pub fn solution_problems(goal: &UGoal, s: &Solution<ChalkIr>) -> Vec<String> {
    match s {
        Solution::Unique(c) => wf_problems(goal, &c.binders, &c.value.subst, Some(&c.value.constraints)),
        Solution::Ambig(Guidance::Definite(c)) | Solution::Ambig(Guidance::Suggested(c)) => wf_problems(goal, &c.binders, &c.value, None),
        Solution::Ambig(Guidance::Unknown) => vec![],
    }
}

pub const RICH_PROGRAM: &str = "
struct A {} struct B {} struct V<T> {} struct S<const N> {} struct R<'a, T> {}
trait Foo {} trait Bar<T> {} trait Len<const N> {} trait Out<'a> {}
impl Foo for A {} impl Foo for S<3> {} impl<T> Foo for V<T> where T: Foo {}
impl<'a, T> Foo for &'a T where T: Foo {}
impl<const N> Len<N> for S<N> {} impl Len<2> for A {} impl<const N> Len<N> for [A; N] {}
impl<'a> Out<'a> for R<'a, A> {} impl<'a, T> Out<'a> for &'a T {}
impl Bar<A> for B {} impl<T> Bar<V<T>> for V<T> {} impl Bar<u32> for u32 {} impl Bar<f32> for f32 {}
trait Tri {} impl Tri for [A; 3] {} impl Tri for [B; 4] {}
trait Holds {} impl<const N> Holds for S<N> where [A; N]: Tri {} impl<T> Holds for V<T> where [T; 4]: Tri {}
";

pub const RICH_GOALS: &[&str] = &[
    "exists<const N> { S<N>: Holds }",
    "exists<T> { V<T>: Holds }",
    "exists<const N> { S<N>: Holds, S<N>: Foo }",
    "exists<const N, T> { [T; N]: Tri }",
    "forall<const N> { exists<T> { [T; N]: Len<N> } }",
    "forall<'a, 'b, 'c> { if (R<'a, A>: Foo; R<'b, A>: Foo) { R<'c, A>: Foo } }",
    "forall<'a, T> { if (T: Out<'a>) { exists<'b> { T: Out<'b> } } }",
    "exists<const N> { S<N>: Foo }",
    "exists<const N> { A: Len<N> }",
    "exists<const N, T> { T: Len<N> }",
    "exists<const N> { [A; N]: Len<N> }",
    "exists<'a, T> { &'a T: Foo }",
    "exists<'a> { R<'a, A>: Out<'a> }",
    "forall<'a> { exists<'b> { R<'a, A>: Out<'b> } }",
    "exists<'b> { forall<'a> { R<'a, A>: Out<'b> } }",
    "forall<'a> { exists<T> { &'a T: Out<'a> } }",
    "exists<T, U> { T: Bar<U> }",
    "exists<int N> { N: Bar<N> }",
    "exists<float N> { N: Bar<N> }",
    "exists<int N, T> { N: Bar<T> }",
    "forall<T> { exists<U> { V<T>: Bar<U> } }",
    "exists<U> { forall<T> { V<T>: Bar<U> } }",
    "forall<T> { if (T: Foo) { exists<U> { V<U>: Foo } } }",
    "forall<'a, T> { exists<'b, U> { R<'a, T> = R<'b, U> } }",
    "forall<const N> { exists<const M> { S<N> = S<M> } }",
    "exists<'a, 'b> { forall<T> { &'a T = &'b T } }",
    "forall<T> { exists<U, const N> { [T; N] = [U; 4] } }",
];

#[derive(Clone, Default)]
struct RScope {
    tys: Vec<String>,
    lts: Vec<String>,
    consts: Vec<String>,
    n: usize,
}

fn rich_ty(t: &mut Tape, sc: &RScope, d: usize) -> String {
    if d == 0 || t.chance(40) {
        if !sc.tys.is_empty() && t.chance(70) {
            return sc.tys[t.choose(sc.tys.len())].clone();
        }
        return ["A", "B", "u32"][t.choose(3)].into();
    }
    match t.choose(if sc.consts.is_empty() { 3 } else { 5 }) {
        3 => format!("S<{}>", rich_const(t, sc)),
        4 => format!("[{}; {}]", rich_ty(t, sc, d - 1), rich_const(t, sc)),
        0 => format!("V<{}>", rich_ty(t, sc, d - 1)),
        1 => format!("R<{}, {}>", rich_lt(t, sc), rich_ty(t, sc, d - 1)),
        _ => format!("&{} {}", rich_lt(t, sc), rich_ty(t, sc, d - 1)),
    }
}

fn rich_const(t: &mut Tape, sc: &RScope) -> String {
    if !sc.consts.is_empty() && t.chance(75) {
        sc.consts[t.choose(sc.consts.len())].clone()
    } else {
        ["2", "3", "4"][t.choose(3)].into()
    }
}

fn rich_lt(t: &mut Tape, sc: &RScope) -> String {
    if !sc.lts.is_empty() && t.chance(85) {
        sc.lts[t.choose(sc.lts.len())].clone()
    } else {
        "'static".into()
    }
}

fn rich_leaf(t: &mut Tape, sc: &RScope) -> String {
    // mostly satisfiable leaves, so that conjunctions have answers
    match t.choose(20) {
        // an outer unknown bound to a structure over the innermost variables (their universes have to be lowered)
        0..=6 if !sc.tys.is_empty() && (!sc.lts.is_empty() || sc.tys.len() > 1) => {
            let outer = sc.tys[t.choose(sc.tys.len().min(2))].clone();
            let inner_ty = sc.tys.last().unwrap().clone();
            let inner = if inner_ty != outer && t.chance(50) { inner_ty } else { "A".into() };
            let rhs = match (sc.lts.last(), t.choose(3)) {
                (Some(l), 0) => format!("R<{}, {}>", l, inner),
                (Some(l), 1) => format!("&{} {}", l, inner),
                _ => format!("V<{}>", inner),
            };
            if t.chance(50) {
                format!("{} = {}", outer, rhs)
            } else {
                format!("{} = {}", rhs, outer)
            }
        }
        7..=9 => {
            let x = rich_ty(t, sc, 2);
            format!("{} = {}", x, x)
        }
        10 | 11 if !sc.tys.is_empty() => format!("{} = {}", sc.tys[t.choose(sc.tys.len())], rich_ty(t, sc, 2)),
        12 if sc.lts.len() >= 2 => format!("{} = {}", rich_lt(t, sc), rich_lt(t, sc)),
        13 => format!("{} = {}", rich_ty(t, sc, 2), rich_ty(t, sc, 2)),
        14 if !sc.consts.is_empty() => match t.choose(4) {
            0 => format!("S<{}>: Holds", rich_const(t, sc)),
            1 => format!("[A; {}]: Tri", rich_const(t, sc)),
            2 => format!("{}: Len<{}>", rich_ty(t, sc, 1), rich_const(t, sc)),
            _ => format!("S<{}> = S<{}>", rich_const(t, sc), rich_const(t, sc)),
        },
        14 => "A: Foo".into(),
        15 => format!("&{} A: Foo", rich_lt(t, sc)),
        16 => {
            let l = rich_lt(t, sc);
            format!("R<{}, A>: Out<{}>", l, l)
        }
        17 => {
            let l = rich_lt(t, sc);
            format!("&{} {}: Out<{}>", l, rich_ty(t, sc, 1), l)
        }
        18 => format!("{}: Foo", rich_ty(t, sc, 2)),
        _ => format!("{}: Bar<{}>", rich_ty(t, sc, 1), rich_ty(t, sc, 1)),
    }
}

fn rich_binder(t: &mut Tape, sc: &mut RScope) -> String {
    let k = 1 + t.choose(2);
    let mut names = vec![];
    for _ in 0..k {
        sc.n += 1;
        if t.chance(45) {
            let n = format!("'l{}", sc.n);
            sc.lts.push(n.clone());
            names.push(n);
        } else if t.chance(25) {
            let n = format!("N{}", sc.n);
            sc.consts.push(n.clone());
            names.push(format!("const {}", n));
        } else {
            let n = format!("T{}", sc.n);
            sc.tys.push(n.clone());
            names.push(n);
        }
    }
    names.join(", ")
}

/// goals in which the solver itself has to open quantifiers: forall / exists blocks sit inside conjunctions, with
/// unknowns of every universe flowing into the outer unknowns through equalities
pub fn gen_rich_goal(t: &mut Tape) -> String {
    fn block(t: &mut Tape, sc: &RScope, depth: usize) -> String {
        let n = 1 + t.choose(3);
        let mut items = vec![];
        for _ in 0..n {
            if depth > 0 && t.chance(12) {
                // hypotheses, also over lifetime-parameterised types (two hypotheses can prove one goal with different
                // lifetime constraints)
                let nh = 1 + t.choose(2);
                let hyps: Vec<String> = (0..nh)
                    .map(|_| match t.choose(4) {
                        0 => format!("R<{}, A>: Foo", rich_lt(t, sc)),
                        1 => format!("{}: Foo", rich_ty(t, sc, 1)),
                        2 => format!("{}: Out<{}>", rich_ty(t, sc, 1), rich_lt(t, sc)),
                        _ => format!("{}: Bar<{}>", rich_ty(t, sc, 1), rich_ty(t, sc, 1)),
                    })
                    .collect();
                let inner = if t.chance(50) { format!("R<{}, A>: Foo", rich_lt(t, sc)) } else { block(t, sc, depth - 1) };
                items.push(format!("if ({}) {{ {} }}", hyps.join("; "), inner));
                continue;
            }
            if depth > 0 && t.chance(45) {
                let mut sc2 = sc.clone();
                let q = if t.chance(60) { "forall" } else { "exists" };
                let b = rich_binder(t, &mut sc2);
                items.push(format!("{}<{}> {{ {} }}", q, b, block(t, &sc2, depth - 1)));
            } else {
                items.push(rich_leaf(t, sc));
            }
        }
        items.join(", ")
    }
    let mut sc = RScope::default();
    let b = rich_binder(t, &mut sc);
    // mostly an unknown at the root; sometimes a universally quantified goal (closed when no inner block adds an unknown)
    let q = if t.chance(25) { "forall" } else { "exists" };
    format!("{}<{}> {{ {} }}", q, b, block(t, &sc, 3))
}

impl Property for C28 {
    type Case = Case;
    fn id(&self) -> &'static str {
        "C28"
    }
    fn rule(&self) -> String {
        "case = either a generated F-horn(+auto/coinductive) program with 4 goals (C01 generator), or 4 goals over a fixed program with lifetime, const, integer and float unknowns — drawn from a goal pool or generated (exists-prefixed conjunctions whose conjuncts are equalities / trait goals or nested forall/exists blocks, so the solver itself opens quantifiers and unknowns of inner universes flow into outer unknowns); every solution returned by both solvers (Unique, definite/suggested guidance) and every answer enumerated by SLG's solve_multiple (up to 12) is checked structurally: one substitution entry per query unknown with the same kind, bound variables refer only to the solution's own binders (depth-aware walk), no inference variable, substitution placeholders and binder universes < number of query universes, and Substitution::apply on the query does not panic. Non-trivial = solution with >=1 binder or >=1 placeholder in its substitution; distinct by hash of (program, goal, solver, rendered answer).".into()
    }
    fn assumptions(&self) -> Vec<String> {
        vec!["unused solution binders are not an error; constraints may mention any placeholder of the query".into()]
    }
    fn cases_per_shard(&self, tier: Tier) -> u32 {
        tier.pick(600, 6000)
    }
    fn decode(&self, t: &mut Tape, _tier: Tier) -> Case {
        if t.chance(45) {
            Case::Rich((0..4).map(|_| if t.chance(50) { RICH_GOALS[t.choose(RICH_GOALS.len())].to_string() } else { gen_rich_goal(t) }).collect())
        } else {
            let cfg = if t.chance(50) { GenCfg::horn_auto() } else { GenCfg::horn() };
            Case::Horn(super::c01::decode_pg(t, &cfg, &GoalCfg { force_exists: true, ..GoalCfg::full() }, 4))
        }
    }
    fn describe(&self, c: &Case) -> Value {
        match c {
            Case::Horn(pg) => pg.describe(),
            Case::Rich(g) => json!({"program": RICH_PROGRAM, "goals": g}),
        }
    }
    fn shrink(&self, c: &Case) -> Vec<Case> {
        match c {
            Case::Horn(pg) => pg.shrink().into_iter().map(Case::Horn).collect(),
            Case::Rich(g) => (0..g.len()).filter(|_| g.len() > 1).map(|i| { let mut q = g.clone(); q.remove(i); Case::Rich(q) }).collect(),
        }
    }
    fn run(&self, case: &Case, _tier: Tier) -> CaseOut {
        let mut out = CaseOut::default();
        let (text, program, goals): (String, _, Vec<(String, UGoal)>) = match case {
            Case::Horn(pg) => {
                let low = match lower_pg(pg, &mut out) {
                    Some(l) => l,
                    None => return out,
                };
                let goals = low.goals.iter().flatten().map(|g| (g.text.clone(), g.peeled.goal.clone())).collect();
                (low.text.clone(), low.program.clone(), goals)
            }
            Case::Rich(gs) => {
                let program = match lower_program(RICH_PROGRAM) {
                    Ok(p) => p,
                    Err(e) => {
                        out.fail("lowering/program-rejected", format!("fixed rich program does not lower: {}", e));
                        return out;
                    }
                };
                let mut goals = vec![];
                for g in gs {
                    match chalk_integration::tls::set_current_program(&program, || catch(|| parse_and_peel(&program, g))) {
                        Ok(Ok(p)) => goals.push((g.clone(), p.goal)),
                        other => out.fail("lowering/goal-rejected", format!("goal `{}` does not lower: {:?}", g, other.map(|r| r.map(|_| ())))),
                    }
                }
                (RICH_PROGRAM.to_string(), program, goals)
            }
        };
        chalk_integration::tls::set_current_program(&program, || {
            for (gtext, goal) in &goals {
                for sv in Sv::BOTH {
                    out.evals += 1;
                    let (run, _) = solve_fresh(&*program, sv.choice(), goal, DEFAULT_BUDGET);
                    let sol = match run {
                        Run::Done(Some(s)) => s,
                        Run::Panic(m) => {
                            out.fail(format!("{}:panic:{}", sv.name(), m), format!("[{}] panic {}\n{}goal: {}", sv.name(), m, text, gtext));
                            continue;
                        }
                        _ => continue,
                    };
                    let rendered = render(&Some(sol.clone()));
                    for pb in solution_problems(goal, &sol) {
                        out.fail(format!("{}:malformed-solution", sv.name()), format!("[{}] {}\n{}goal: {}\nanswer: {}\nraw: {:?}", sv.name(), pb, text, gtext, rendered, sol));
                        break;
                    }
                    let nb = match &sol {
                        Solution::Unique(c) => c.binders.len(I),
                        Solution::Ambig(Guidance::Definite(c)) | Solution::Ambig(Guidance::Suggested(c)) => c.binders.len(I),
                        _ => 0,
                    };
                    if nb > 0 || rendered.contains('!') {
                        out.nontrivial.push(hash_of(&(&text, gtext, sv.name(), &rendered)));
                        if out.sample.is_none() || rendered.contains('\'') {
                            out.sample = Some(json!({"program": text, "goal": gtext, "solver": sv.name(), "answer": rendered}));
                        }
                    }
                }
                // enumerated SLG answers
                let mut answers: Vec<Canonical<ConstrainedSubst<ChalkIr>>> = vec![];
                let (run, _) = guarded(DEFAULT_BUDGET * 2, || {
                    let mut solver = Sv::Slg.choice().into_solver();
                    let mut n = 0;
                    solver.solve_multiple(&*program, goal, &mut |res, _| {
                        n += 1;
                        match res {
                            SubstitutionResult::Definite(c) | SubstitutionResult::Ambiguous(c) => answers.push(c),
                            SubstitutionResult::Floundered => return false,
                        }
                        n < 12
                    })
                });
                if let Run::Panic(m) = &run {
                    out.fail(format!("slg:panic:{}", m), format!("solve_multiple panicked: {}\n{}goal: {}", m, text, gtext));
                }
                for c in &answers {
                    out.evals += 1;
                    for pb in wf_problems(goal, &c.binders, &c.value.subst, Some(&c.value.constraints)) {
                        out.fail("slg:malformed-enumerated-answer", format!("[slg solve_multiple] {}\n{}goal: {}\nraw: {:?}", pb, text, gtext, c));
                        break;
                    }
                    if c.binders.len(I) > 0 {
                        out.nontrivial.push(hash_of(&(&text, gtext, "enum", format!("{:?}", c))));
                    }
                }
            }
        });
        out
    }
}
