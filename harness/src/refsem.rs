//! Reference semantics: ground Horn evaluation with LFP (inductive) / GFP (coinductive, auto),
//! three-valued with an exploration budget. Written from the property text and the book
//! (lowering rules, implied bounds, well-known traits, coinduction) — not from the solver code.
use crate::model::*;
use std::collections::{BTreeMap, BTreeSet, VecDeque};

#[derive(Clone, Copy, Debug, PartialEq, Eq, serde::Serialize, serde::Deserialize)]
pub enum Tri {
    True,
    False,
    Unknown,
}

impl Tri {
    pub fn and(self, o: Tri) -> Tri {
        match (self, o) {
            (Tri::False, _) | (_, Tri::False) => Tri::False,
            (Tri::True, Tri::True) => Tri::True,
            _ => Tri::Unknown,
        }
    }
    pub fn not(self) -> Tri {
        match self {
            Tri::True => Tri::False,
            Tri::False => Tri::True,
            Tri::Unknown => Tri::Unknown,
        }
    }
    pub fn definite(self) -> bool {
        self != Tri::Unknown
    }
}

/// one-way matching of a pattern (with Param(i)) against a ground type
pub fn match_params(pat: &Ty, g: &Ty, b: &mut Vec<Option<Ty>>) -> bool {
    match (pat, g) {
        (Ty::Param(i), _) => match &b[*i] {
            Some(t) => t == g,
            None => {
                b[*i] = Some(g.clone());
                true
            }
        },
        (Ty::Adt(c, a), Ty::Adt(d, e)) => c == d && a.len() == e.len() && a.iter().zip(e).all(|(x, y)| match_params(x, y, b)),
        (Ty::Bi(c, a), Ty::Bi(d, e)) => c == d && a.len() == e.len() && a.iter().zip(e).all(|(x, y)| match_params(x, y, b)),
        (Ty::Ph(u, i), Ty::Ph(v, j)) => u == v && i == j,
        _ => false,
    }
}

/// ground tuple is an instance of a canonical substitution (CVar(i) may name placeholders of universes <= cu[i])
pub fn instance_of(ground: &[Ty], pat: &[Ty], cu: &[usize]) -> bool {
    fn go(p: &Ty, g: &Ty, b: &mut Vec<Option<Ty>>, cu: &[usize]) -> bool {
        match (p, g) {
            (Ty::CVar(i), _) => {
                if *i >= cu.len() || g.max_ph_universe() > cu[*i] {
                    return false;
                }
                match &b[*i] {
                    Some(t) => t == g,
                    None => {
                        b[*i] = Some(g.clone());
                        true
                    }
                }
            }
            (Ty::Adt(c, a), Ty::Adt(d, e)) => c == d && a.len() == e.len() && a.iter().zip(e).all(|(x, y)| go(x, y, b, cu)),
            (Ty::Bi(c, a), Ty::Bi(d, e)) => c == d && a.len() == e.len() && a.iter().zip(e).all(|(x, y)| go(x, y, b, cu)),
            (Ty::Ph(u, i), Ty::Ph(v, j)) => u == v && i == j,
            _ => false,
        }
    }
    let mut b = vec![None; cu.len()];
    ground.len() == pat.len() && pat.iter().zip(ground).all(|(p, g)| go(p, g, &mut b, cu))
}

/// pattern-vs-pattern generalisation check: `spec` (with CVars) is an instance of `gen` (with CVars)
pub fn pattern_instance_of(spec: &[Ty], gen: &[Ty]) -> bool {
    fn go(p: &Ty, g: &Ty, b: &mut BTreeMap<usize, Ty>) -> bool {
        match (p, g) {
            (Ty::CVar(i), _) => match b.get(i) {
                Some(t) => t == g,
                None => {
                    b.insert(*i, g.clone());
                    true
                }
            },
            (Ty::Adt(c, a), Ty::Adt(d, e)) => c == d && a.len() == e.len() && a.iter().zip(e).all(|(x, y)| go(x, y, b)),
            (Ty::Bi(c, a), Ty::Bi(d, e)) => c == d && a.len() == e.len() && a.iter().zip(e).all(|(x, y)| go(x, y, b)),
            (Ty::Ph(u, i), Ty::Ph(v, j)) => u == v && i == j,
            _ => false,
        }
    }
    let mut b = BTreeMap::new();
    spec.len() == gen.len() && gen.iter().zip(spec).all(|(p, g)| go(p, g, &mut b))
}

/// Closure of the hypotheses under implied bounds: `FromEnv(T: Tr)` gives the trait's
/// where-clauses (supertraits and where-clauses on its own parameters); `FromEnv(S<..>)` gives
/// the struct's where-clauses.
pub fn env_closure(p: &Program, hyps: &[Hyp]) -> BTreeSet<TRef> {
    env_closure_bounded(p, hyps).0
}

/// closure + whether it was truncated (growing implied bounds: the closure can be infinite)
pub fn env_closure_bounded(p: &Program, hyps: &[Hyp]) -> (BTreeSet<TRef>, bool) {
    let mut set: BTreeSet<TRef> = BTreeSet::new();
    let mut work: Vec<TRef> = vec![];
    let mut tys: Vec<Ty> = vec![];
    for h in hyps {
        match h {
            Hyp::Holds(t) => {
                if set.insert(t.clone()) {
                    work.push(t.clone())
                }
            }
            Hyp::FromEnvTy(t) => tys.push(t.clone()),
        }
    }
    for t in tys {
        if let Ty::Adt(c, args) = &t {
            for wc in &p.ctors[*c].wcs {
                let s = wc.subst_params(args);
                if set.insert(s.clone()) {
                    work.push(s);
                }
            }
        }
    }
    let mut truncated = false;
    while let Some(t) = work.pop() {
        for sup in &p.traits[t.tr].supers {
            let s = sup.subst_params(&t.args);
            if s.max_size() > 12 || set.len() >= 200 {
                truncated = true;
                continue;
            }
            if set.insert(s.clone()) {
                work.push(s);
            }
        }
    }
    (set, truncated)
}

#[derive(Default, Clone, Debug, serde::Serialize)]
pub struct EvalStats {
    pub max_size: usize,
    pub atoms: usize,
    pub shared: bool,
    pub cycle: bool,
    pub co_cycle: bool,
    /// some coinductive strongly connected component is more than one simple cycle (nested / overlapping cycles)
    pub co_cycle_complex: bool,
    pub co_cycle_failed: bool,
    pub incomplete: bool,
    pub used_env: bool,
    pub env_elaborated: bool,
    pub neg_with_ph: bool,
    pub rule_apps: usize,
}

pub struct Eval<'a> {
    pub p: &'a Program,
    /// closure of the hypotheses (ground)
    pub env: BTreeSet<TRef>,
    /// the closure was cut off: atoms not found are unknown, not false
    pub env_truncated: bool,
    pub direct_env: BTreeSet<TRef>,
    memo: BTreeMap<TRef, Tri>,
    pub budget_atoms: usize,
    pub budget_size: usize,
    pub st: EvalStats,
}

impl<'a> Eval<'a> {
    pub fn new(p: &'a Program, hyps: &[Hyp]) -> Self {
        let direct_env: BTreeSet<TRef> = hyps.iter().filter_map(|h| if let Hyp::Holds(t) = h { Some(t.clone()) } else { None }).collect();
        let (env, env_truncated) = env_closure_bounded(p, hyps);
        Eval { p, env, env_truncated, direct_env, memo: BTreeMap::new(), budget_atoms: 600, budget_size: 16, st: EvalStats::default() }
    }

    fn coinductive(&self, a: &TRef) -> bool {
        self.p.traits[a.tr].kind != TraitKind::Inductive
    }

    /// Rule bodies for a ground atom. `None` = the model has no opinion (atom outside the modelled
    /// fragment); the atom is then treated as unknown.
    pub fn rules(&mut self, a: &TRef) -> Option<Vec<Vec<TRef>>> {
        let mut out = vec![];
        if self.env.contains(a) {
            self.st.used_env = true;
            if !self.direct_env.contains(a) {
                self.st.env_elaborated = true;
            }
            out.push(vec![]);
        }
        let tr = &self.p.traits[a.tr];
        if a.args.iter().any(|t| t.has_proj() || t.has_qvar() || t.has_param()) {
            return None;
        }
        // a trait object implements its own trait; what else it implements (supertraits, auto traits) is
        // outside the modelled fragment
        if let Ty::Bi(Bi::Dyn(dt), _) = &a.args[0] {
            if *dt == a.tr {
                out.push(vec![]);
            } else if tr.lang.is_none() {
                return None;
            }
        }
        for im in &self.p.impls {
            if !im.positive || im.head.tr != a.tr {
                continue;
            }
            let mut b = vec![None; im.nparams];
            if im.head.args.iter().zip(&a.args).all(|(p, g)| match_params(p, g, &mut b)) {
                if b.iter().any(|x| x.is_none()) {
                    return None; // impl parameter not bound by the header: outside the fragment
                }
                let s: Vec<Ty> = b.into_iter().map(|x| x.unwrap()).collect();
                if im.wcs.iter().any(|w| w.args.iter().any(|t| t.has_proj())) {
                    return None;
                }
                out.push(im.wcs.iter().map(|w| w.subst_params(&s)).collect());
            }
        }
        if tr.kind == TraitKind::Auto {
            let self_ty = &a.args[0];
            let same_ctor = |h: &Ty| match (h, self_ty) {
                (Ty::Adt(d, _), Ty::Adt(c, _)) => d == c,
                (Ty::Bi(d, x), Ty::Bi(c, y)) => d == c && x.len() == y.len(),
                _ => false,
            };
            let provided = self.p.impls.iter().any(|im| im.head.tr == a.tr && same_ctor(&im.head.args[0]));
            if !provided {
                let mk = |t: &Ty| TRef { tr: a.tr, args: vec![t.clone()] };
                match self_ty {
                    Ty::Adt(c, targs) => out.push(self.p.ctors[*c].all_fields().map(|f| mk(&f.subst_params(targs))).collect()),
                    Ty::Bi(b, args) => match b {
                        Bi::Tuple | Bi::Slice | Bi::Array(_) | Bi::Ref(_) | Bi::Raw(_) => out.push(args.iter().map(mk).collect()),
                        Bi::Scalar(_) | Bi::Str | Bi::Never | Bi::FnPtr => out.push(vec![]),
                        Bi::Dyn(_) => {}
                    },
                    _ => {}
                }
            }
        }
        if let Some(l) = tr.lang {
            match crate::builtin::builtin_rules(self.p, l, a) {
                Some(rs) => out.extend(rs),
                None => return None,
            }
        }
        Some(out)
    }

    pub fn holds(&mut self, a: &TRef) -> Tri {
        if let Some(v) = self.memo.get(a) {
            return *v;
        }
        // explore
        let mut rules: BTreeMap<TRef, Vec<Vec<TRef>>> = BTreeMap::new();
        let mut frontier: BTreeSet<TRef> = BTreeSet::new();
        let mut q = VecDeque::new();
        q.push_back(a.clone());
        let mut seen: BTreeSet<TRef> = BTreeSet::new();
        seen.insert(a.clone());
        while let Some(x) = q.pop_front() {
            if let Some(v) = self.memo.get(&x) {
                match v {
                    Tri::True => {
                        rules.insert(x.clone(), vec![vec![]]);
                    }
                    Tri::False => {
                        rules.insert(x.clone(), vec![]);
                    }
                    Tri::Unknown => {
                        frontier.insert(x.clone());
                    }
                }
                continue;
            }
            self.st.max_size = self.st.max_size.max(x.max_size());
            if rules.len() >= self.budget_atoms || x.max_size() > self.budget_size {
                frontier.insert(x.clone());
                self.st.incomplete = true;
                continue;
            }
            let rs = match self.rules(&x) {
                Some(rs) => rs,
                None => {
                    frontier.insert(x.clone());
                    self.st.incomplete = true;
                    continue;
                }
            };
            self.st.rule_apps += rs.len();
            for body in &rs {
                for y in body {
                    if seen.insert(y.clone()) {
                        q.push_back(y.clone());
                    } else {
                        self.st.shared = true;
                    }
                }
            }
            rules.insert(x, rs);
        }
        self.st.atoms = self.st.atoms.max(rules.len());
        // cycle detection: nodes that can reach themselves
        let on_cycle: BTreeSet<TRef> = {
            let keys: Vec<&TRef> = rules.keys().collect();
            let idx: BTreeMap<&TRef, usize> = keys.iter().enumerate().map(|(i, k)| (*k, i)).collect();
            let succ: Vec<Vec<usize>> = keys.iter().map(|k| rules[*k].iter().flatten().filter_map(|y| idx.get(y).copied()).collect()).collect();
            let mut oc = BTreeSet::new();
            if keys.len() <= 400 {
                // reach[s] = nodes reachable from s (by >= 1 edge)
                let mut reach: Vec<Vec<bool>> = vec![];
                for s in 0..keys.len() {
                    let mut stack = succ[s].clone();
                    let mut vis = vec![false; keys.len()];
                    while let Some(n) = stack.pop() {
                        if !vis[n] {
                            vis[n] = true;
                            stack.extend(succ[n].iter().copied());
                        }
                    }
                    if vis[s] {
                        oc.insert(keys[s].clone());
                    }
                    reach.push(vis);
                }
                // a strongly connected component that is one simple cycle has exactly one inner edge per node
                for s in 0..keys.len() {
                    if !reach[s][s] || !self.coinductive(keys[s]) {
                        continue;
                    }
                    // occurrences, not distinct successors: two rules (or two literals of one rule) leading back into the
                    // component are two cycles through this node
                    let inner = succ[s].iter().filter(|n| reach[**n][s]).count();
                    if inner > 1 {
                        self.st.co_cycle_complex = true;
                    }
                }
            }
            oc
        };
        if !on_cycle.is_empty() {
            self.st.cycle = true;
        }
        if on_cycle.iter().any(|k| self.coinductive(k)) {
            self.st.co_cycle = true;
        }
        let solve = |hi: bool, this: &Self| -> BTreeSet<TRef> {
            let mut co: BTreeSet<TRef> = rules.keys().filter(|k| this.coinductive(k)).cloned().collect();
            if hi {
                co.extend(frontier.iter().filter(|k| this.coinductive(k)).cloned());
            }
            let base_ind = |hi: bool| -> BTreeSet<TRef> { if hi { frontier.iter().filter(|k| !this.coinductive(k)).cloned().collect() } else { BTreeSet::new() } };
            let mut ind = base_ind(hi);
            // joint fixed point: LFP over inductive atoms given co, GFP shrink of co given ind
            loop {
                let mut changed = false;
                loop {
                    let mut added = false;
                    for (k, rs) in &rules {
                        if this.coinductive(k) || ind.contains(k) {
                            continue;
                        }
                        if rs.iter().any(|b| b.iter().all(|y| if this.coinductive(y) { co.contains(y) } else { ind.contains(y) })) {
                            ind.insert(k.clone());
                            added = true;
                        }
                    }
                    if !added {
                        break;
                    }
                }
                loop {
                    let mut removed = false;
                    let cur: Vec<TRef> = co.iter().cloned().collect();
                    for k in cur {
                        if let Some(rs) = rules.get(&k) {
                            if !rs.iter().any(|b| b.iter().all(|y| if this.coinductive(y) { co.contains(y) } else { ind.contains(y) })) {
                                co.remove(&k);
                                removed = true;
                                changed = true;
                            }
                        }
                    }
                    if !removed {
                        break;
                    }
                }
                if !changed {
                    break;
                }
                ind = base_ind(hi);
            }
            co.extend(ind);
            co
        };
        let lo = solve(false, self);
        let mut hi = solve(true, self);
        if self.env_truncated {
            // more hypotheses could make more atoms true: nothing is definitely false
            self.st.incomplete = true;
            hi.extend(rules.keys().cloned());
        }
        for k in rules.keys() {
            let v = if lo.contains(k) {
                Tri::True
            } else if !hi.contains(k) {
                Tri::False
            } else {
                Tri::Unknown
            };
            if v == Tri::False && on_cycle.contains(k) && self.coinductive(k) {
                self.st.co_cycle_failed = true;
            }
            if v != Tri::Unknown {
                self.memo.insert(k.clone(), v);
            }
        }
        if lo.contains(a) {
            Tri::True
        } else if !hi.contains(a) {
            Tri::False
        } else {
            Tri::Unknown
        }
    }
}

/// All ground types of depth <= d over the program's constructors and the given placeholder leaves.
pub fn universe(p: &Program, phs: &[Ty], d: usize, cap: usize) -> Vec<Ty> {
    let mut level: Vec<Ty> = vec![];
    for (i, c) in p.ctors.iter().enumerate() {
        if c.arity == 0 {
            level.push(Ty::Adt(i, vec![]));
        }
    }
    level.extend(phs.iter().cloned());
    let mut all = level.clone();
    for _ in 1..d {
        let mut next = vec![];
        for (i, c) in p.ctors.iter().enumerate() {
            if c.arity == 0 {
                continue;
            }
            let mut tuples: Vec<Vec<Ty>> = vec![vec![]];
            for _ in 0..c.arity {
                let mut nt = vec![];
                'o: for t in &tuples {
                    for a in &all {
                        let mut t2 = t.clone();
                        t2.push(a.clone());
                        nt.push(t2);
                        if nt.len() > cap {
                            break 'o;
                        }
                    }
                }
                tuples = nt;
            }
            for t in tuples {
                next.push(Ty::Adt(i, t));
            }
        }
        for t in next {
            if !all.contains(&t) {
                all.push(t);
            }
            if all.len() > cap {
                break;
            }
        }
    }
    all
}

/// Evaluates goal literals under ground assignments; keeps one evaluator per hypothesis set.
pub struct GoalEval<'a> {
    pub p: &'a Program,
    evals: BTreeMap<Vec<Hyp>, Eval<'a>>,
    pub st: EvalStats,
}

impl<'a> GoalEval<'a> {
    pub fn new(p: &'a Program) -> Self {
        GoalEval { p, evals: BTreeMap::new(), st: EvalStats::default() }
    }

    pub fn holds(&mut self, a: &TRef, hyps: &Vec<Hyp>) -> Tri {
        let p = self.p;
        let ev = self.evals.entry(hyps.clone()).or_insert_with(|| Eval::new(p, hyps));
        let v = ev.holds(a);
        let s = &ev.st;
        self.st.max_size = self.st.max_size.max(s.max_size);
        self.st.atoms = self.st.atoms.max(s.atoms);
        self.st.shared |= s.shared;
        self.st.cycle |= s.cycle;
        self.st.co_cycle |= s.co_cycle;
        self.st.co_cycle_complex |= s.co_cycle_complex;
        self.st.co_cycle_failed |= s.co_cycle_failed;
        self.st.incomplete |= s.incomplete;
        self.st.used_env |= s.used_env;
        self.st.env_elaborated |= s.env_elaborated;
        self.st.rule_apps = self.st.rule_apps.max(s.rule_apps);
        v
    }

    /// evaluate a literal under a ground assignment of the goal variables
    pub fn lit(&mut self, l: &Lit, asg: &mut Vec<Option<Ty>>, hyps: &Vec<Hyp>, universe_ctr: usize) -> Tri {
        match l {
            Lit::Holds(t) => {
                let a = t.subst_qvars(asg);
                self.holds(&a, hyps)
            }
            Lit::Eq(a, b) => {
                let (a, b) = (a.subst_qvars(asg), b.subst_qvars(asg));
                if a.has_proj() || b.has_proj() {
                    return Tri::Unknown;
                }
                if a == b {
                    Tri::True
                } else {
                    Tri::False
                }
            }
            Lit::Not(g) => {
                // chalk inverts *all* placeholders of the negated goal, including those of the
                // hypotheses in scope, into existentials; the "opaque constant" reading of the
                // property and that documented reading can differ, so such cases are not judged.
                if lit_has_ph(g, asg) || hyps.iter().any(|h| h.has_ph()) {
                    self.st.neg_with_ph = true;
                    return Tri::Unknown;
                }
                self.lit(g, asg, hyps, universe_ctr).not()
            }
            Lit::Inner(vars, hs, g) => {
                let u = universe_ctr + 1;
                for (i, v) in vars.iter().enumerate() {
                    asg[*v] = Some(Ty::Ph(u, i));
                }
                let mut h2 = hyps.clone();
                for h in hs {
                    h2.push(h.subst_qvars(asg));
                }
                let r = self.lit(g, asg, &h2, if vars.is_empty() { universe_ctr } else { u });
                for v in vars {
                    asg[*v] = None;
                }
                r
            }
            Lit::Normalize(..) | Lit::ProjEq(..) => Tri::Unknown,
        }
    }
}

fn lit_has_ph(l: &Lit, asg: &Vec<Option<Ty>>) -> bool {
    match l {
        Lit::Holds(t) => t.subst_qvars(asg).has_ph(),
        Lit::Eq(a, b) => a.subst_qvars(asg).has_ph() || b.subst_qvars(asg).has_ph(),
        Lit::Not(g) => lit_has_ph(g, asg),
        Lit::Inner(..) => true,
        Lit::Normalize(..) | Lit::ProjEq(..) => true,
    }
}

pub struct SolutionSets {
    /// ground tuples (one type per existential variable, in `layout.exvars` order) on which the goal is true
    pub s: Vec<Vec<Ty>>,
    /// ... false
    pub n: Vec<Vec<Ty>>,
    pub unknown: usize,
    pub total: usize,
    /// the enumeration covered the whole bounded universe (no stride sampling)
    pub exhaustive: bool,
    pub st: EvalStats,
}

/// Enumerate the bounded Herbrand universe for the goal's existential variables and evaluate the goal.
pub fn solution_sets(p: &Program, g: &Goal, depth: usize, cap_tuples: usize) -> SolutionSets {
    let l = layout(g);
    let nv = goal_num_vars(g);
    let mut cands: Vec<Vec<Ty>> = vec![];
    for (_, u) in &l.exvars {
        let visible: Vec<Ty> = l.phs.iter().filter(|(_, ph)| matches!(ph, Ty::Ph(pu, _) if pu <= u)).map(|(_, ph)| ph.clone()).collect();
        cands.push(universe(p, &visible, depth, 60));
    }
    let total: usize = cands.iter().map(|c| c.len()).product::<usize>().max(1);
    let stride = (total + cap_tuples - 1) / cap_tuples;
    let mut out = SolutionSets { s: vec![], n: vec![], unknown: 0, total, exhaustive: stride == 1, st: EvalStats::default() };
    let mut ge = GoalEval::new(p);
    let mut idx = 0usize;
    while idx < total {
        let mut rem = idx;
        let mut tuple = vec![];
        for c in &cands {
            tuple.push(c[rem % c.len()].clone());
            rem /= c.len();
        }
        idx += stride;
        let mut asg: Vec<Option<Ty>> = vec![None; nv];
        for ((v, _), t) in l.exvars.iter().zip(&tuple) {
            asg[*v] = Some(t.clone());
        }
        for (v, ph) in &l.phs {
            asg[*v] = Some(ph.clone());
        }
        let hyps: Vec<Hyp> = l.hyps.iter().map(|h| h.subst_qvars(&asg)).collect();
        let mut val = Tri::True;
        for lit in &g.body {
            val = val.and(ge.lit(lit, &mut asg, &hyps, l.last_universe));
            if val == Tri::False {
                break;
            }
        }
        match val {
            Tri::True => out.s.push(tuple),
            Tri::False => out.n.push(tuple),
            Tri::Unknown => out.unknown += 1,
        }
    }
    out.st = ge.st;
    out
}
