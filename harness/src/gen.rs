//! Fragment generators (decoders over a choice tape).
use crate::model::*;
use crate::tape::Tape;

const NULLARY: [&str; 4] = ["A", "B", "C", "D"];
const UNARY: [&str; 3] = ["V", "W", "Bx"];
const BINARY: [&str; 2] = ["P", "Q"];
pub const TRAITS: [&str; 6] = ["Foo", "Bar", "Baz", "Qux", "Zed", "Yip"];

#[derive(Clone, Debug)]
pub struct GenCfg {
    pub coinductive: bool,
    pub auto: bool,
    pub supers: bool,
    pub extra_params: bool,
    pub negative_impls: bool,
    pub blanket: bool,
    /// where-clauses may apply constructors to impl parameters (growing derivations)
    pub growth: bool,
    pub struct_wcs: bool,
    pub fields: bool,
    pub enums: bool,
    pub max_impls: usize,
    pub max_traits: usize,
    /// percent chance that an impl is a plain fact over ground types (more satisfiable goals)
    pub fact_bias: usize,
    /// most traits are auto / coinductive
    pub co_bias: bool,
}

impl GenCfg {
    pub fn horn() -> Self {
        GenCfg { coinductive: false, auto: false, supers: true, extra_params: true, negative_impls: false, blanket: true, growth: true, struct_wcs: false, fields: false, enums: false, max_impls: 10, max_traits: 5, fact_bias: 35, co_bias: false }
    }
    pub fn horn_auto() -> Self {
        GenCfg { coinductive: true, auto: true, negative_impls: true, fields: true, enums: true, ..Self::horn() }
    }
    /// F-auto: mostly auto / coinductive traits over recursive data types
    pub fn auto_heavy() -> Self {
        GenCfg { co_bias: true, extra_params: false, supers: false, fact_bias: 25, ..Self::horn_auto() }
    }
    /// F-env: rich supertrait hierarchies, where-clauses on type declarations, few impls
    pub fn env() -> Self {
        GenCfg { struct_wcs: true, max_impls: 5, fact_bias: 50, growth: false, ..Self::horn() }
    }
}

pub fn gen_ty(t: &mut Tape, p: &Program, leaves: &[Ty], depth: usize) -> Ty {
    let n_leaf = leaves.len();
    if depth == 0 || t.chance(45) {
        let nullary: Vec<usize> = (0..p.ctors.len()).filter(|i| p.ctors[*i].arity == 0).collect();
        let k = t.choose(n_leaf + nullary.len());
        if k < nullary.len() {
            Ty::Adt(nullary[k], vec![])
        } else {
            leaves[k - nullary.len()].clone()
        }
    } else {
        let c = t.choose(p.ctors.len());
        let ar = p.ctors[c].arity;
        Ty::Adt(c, (0..ar).map(|_| gen_ty(t, p, leaves, depth - 1)).collect())
    }
}

fn coind(k: TraitKind) -> bool {
    k != TraitKind::Inductive
}

pub fn new_ctor(name: &str, arity: usize) -> Ctor {
    Ctor { name: name.into(), arity, is_enum: false, variants: vec![vec![]], wcs: vec![], upstream: false, fundamental: false }
}

pub fn new_trait(name: &str, extra: usize, kind: TraitKind) -> TraitDef {
    TraitDef { name: name.into(), extra, kind, supers: vec![], lang: None, upstream: false, marker: false, non_enumerable: false, assocs: vec![], assoc_wcs: vec![] }
}

pub fn gen_ctors(t: &mut Tape, cfg: &GenCfg) -> Program {
    let n0 = 2 + t.choose(3);
    let n1 = 1 + t.choose(2);
    let n2 = t.choose(2);
    let mut p = Program::default();
    for name in NULLARY.iter().take(n0) {
        p.ctors.push(new_ctor(name, 0));
    }
    for name in UNARY.iter().take(n1) {
        p.ctors.push(new_ctor(name, 1));
    }
    for name in BINARY.iter().take(n2) {
        p.ctors.push(new_ctor(name, 2));
    }
    if cfg.fields {
        for c in 0..p.ctors.len() {
            let params: Vec<Ty> = (0..p.ctors[c].arity).map(Ty::Param).collect();
            let is_enum = cfg.enums && t.chance(20);
            let nv = if is_enum { 1 + t.choose(2) } else { 1 };
            let mut variants = vec![];
            for _ in 0..nv {
                let nf = t.choose(3);
                variants.push((0..nf).map(|_| gen_ty(t, &p, &params, 2)).collect());
            }
            p.ctors[c].is_enum = is_enum;
            p.ctors[c].variants = variants;
        }
    }
    p
}

/// Renumber the impl parameters actually used in the header; returns (nparams, renaming)
fn renumber_header(args: &[Ty], np: usize) -> (usize, Vec<Ty>) {
    let mut used: Vec<usize> = vec![];
    args.iter().for_each(|a| a.collect_params(&mut used));
    let ren: Vec<Ty> = (0..np).map(|i| Ty::Param(used.iter().position(|u| *u == i).unwrap_or(0))).collect();
    (used.len(), ren)
}

pub fn gen_program(t: &mut Tape, cfg: &GenCfg) -> Program {
    let mut p = gen_ctors(t, cfg);
    let nt = 2 + t.choose(cfg.max_traits - 1);
    for name in TRAITS.iter().take(nt) {
        let kind = if cfg.co_bias {
            match t.choose(10) {
                0..=1 => TraitKind::Inductive,
                2..=4 => TraitKind::Coinductive,
                _ => TraitKind::Auto,
            }
        } else {
            match t.choose(10) {
                6..=7 if cfg.coinductive => TraitKind::Coinductive,
                8..=9 if cfg.auto => TraitKind::Auto,
                _ => TraitKind::Inductive,
            }
        };
        let extra = if cfg.extra_params && kind != TraitKind::Auto && t.chance(25) { 1 } else { 0 };
        p.traits.push(new_trait(name, extra, kind));
    }
    if cfg.supers {
        for i in 0..nt {
            if p.traits[i].kind == TraitKind::Auto {
                continue;
            }
            let ns = t.choose(3);
            let mut supers = vec![];
            for _ in 0..ns {
                let j = t.choose(nt);
                if j == i && !t.chance(20) {
                    continue;
                }
                let params: Vec<Ty> = (0..=p.traits[i].extra).map(Ty::Param).collect();
                let self_ty = if p.traits[i].extra > 0 && t.chance(30) { Ty::Param(1) } else { Ty::Param(0) };
                let mut args = vec![self_ty];
                for _ in 0..p.traits[j].extra {
                    args.push(gen_ty(t, &p, &params, 1));
                }
                supers.push(TRef { tr: j, args });
            }
            p.traits[i].supers = supers;
        }
    }
    if cfg.struct_wcs {
        for c in 0..p.ctors.len() {
            if p.ctors[c].arity == 0 || !t.chance(60) {
                continue;
            }
            let params: Vec<Ty> = (0..p.ctors[c].arity).map(Ty::Param).collect();
            let nw = 1 + t.choose(2);
            let mut wcs = vec![];
            for _ in 0..nw {
                let j = t.choose(nt);
                if p.traits[j].kind == TraitKind::Auto {
                    continue;
                }
                let mut args = vec![params[t.choose(params.len())].clone()];
                for _ in 0..p.traits[j].extra {
                    args.push(gen_ty(t, &p, &params, 1));
                }
                wcs.push(TRef { tr: j, args });
            }
            p.ctors[c].wcs = wcs;
        }
    }
    let ni = 2 + t.choose(cfg.max_impls - 1);
    for _ in 0..ni {
        if let Some(im) = gen_impl(t, &p, cfg) {
            p.impls.push(im);
        }
    }
    p
}

pub fn gen_impl(t: &mut Tape, p: &Program, cfg: &GenCfg) -> Option<ImplDef> {
    let nt = p.traits.len();
    let tr = t.choose(nt);
    let kind = p.traits[tr].kind;
    let fact = t.chance(cfg.fact_bias);
    let np = if fact { 0 } else { t.choose(3) };
    let params: Vec<Ty> = (0..np).map(Ty::Param).collect();
    let mut args = vec![];
    let self_depth = 1 + t.choose(2);
    let self_ty = if cfg.blanket && np > 0 && kind != TraitKind::Auto && t.chance(20) { Ty::Param(0) } else { gen_ty(t, p, &params, self_depth) };
    args.push(self_ty);
    for _ in 0..p.traits[tr].extra {
        args.push(gen_ty(t, p, &params, 1));
    }
    // auto trait impls must be for an ADT self type
    if kind == TraitKind::Auto && !matches!(args[0], Ty::Adt(..)) {
        return None;
    }
    let (nparams, ren) = renumber_header(&args, np);
    let args: Vec<Ty> = args.iter().map(|a| a.subst_params(&ren)).collect();
    let params: Vec<Ty> = (0..nparams).map(Ty::Param).collect();
    let positive = !(cfg.negative_impls && kind == TraitKind::Auto && t.chance(25));
    let mut wcs = vec![];
    if positive && !fact {
        let nw = t.choose(3);
        for _ in 0..nw {
            // candidate traits respecting "coinductive depends only on coinductive"
            let cands: Vec<usize> = (0..nt).filter(|j| !coind(kind) || coind(p.traits[*j].kind)).collect();
            if cands.is_empty() {
                continue;
            }
            let j = cands[t.choose(cands.len())];
            let wself = if nparams > 0 && !t.chance(30) {
                params[t.choose(nparams)].clone()
            } else if cfg.growth && nparams > 0 && t.chance(50) {
                gen_ty(t, p, &params, 2)
            } else if nparams > 0 && !cfg.growth {
                params[t.choose(nparams)].clone()
            } else {
                gen_ty(t, p, &params, 1)
            };
            let mut wargs = vec![wself];
            for _ in 0..p.traits[j].extra {
                wargs.push(if cfg.growth { gen_ty(t, p, &params, 1) } else if nparams > 0 && t.chance(50) { params[t.choose(nparams)].clone() } else { gen_ty(t, p, &[], 0) });
            }
            wcs.push(TRef { tr: j, args: wargs });
        }
    }
    Some(ImplDef { nparams, head: TRef { tr, args }, wcs, positive, values: vec![], upstream: false })
}

/// every where-clause type is an impl parameter or a ground type: derivations are size-bounded by the goal
pub fn non_growing(p: &Program) -> bool {
    p.impls.iter().all(|im| im.wcs.iter().all(|w| w.args.iter().all(|a| matches!(a, Ty::Param(_)) || !a.has_param())))
}

/// Answers of existential goals cannot grow without bound: there is no impl whose header applies a
/// constructor to an impl parameter ("generative") and whose where-clauses lead back — through the
/// where-clauses of other impls — to the trait it implements.
pub fn finite_answers(p: &Program) -> bool {
    let nt = p.traits.len();
    // trait dependency graph through impl where-clauses
    let mut succ: Vec<Vec<usize>> = vec![vec![]; nt];
    for im in &p.impls {
        for w in &im.wcs {
            succ[im.head.tr].push(w.tr);
        }
    }
    let reaches = |from: usize, to: usize| -> bool {
        let mut stack = vec![from];
        let mut vis = vec![false; nt];
        while let Some(n) = stack.pop() {
            if n == to {
                return true;
            }
            if !vis[n] {
                vis[n] = true;
                stack.extend(succ[n].iter().copied());
            }
        }
        false
    };
    for im in &p.impls {
        let generative = im.head.args.iter().any(|a| !matches!(a, Ty::Param(_)) && a.has_param());
        if generative && im.wcs.iter().any(|w| reaches(w.tr, im.head.tr)) {
            return false;
        }
    }
    true
}

/// no field type nests a type parameter inside two constructor applications (polymorphic recursion
/// through fields makes auto-trait searches grow; with two such fields the search tree is exponential)
pub fn non_growing_fields(p: &Program) -> bool {
    fn param_depth(t: &Ty, d: usize) -> usize {
        match t {
            Ty::Param(_) => d,
            t => t.args().iter().map(|x| param_depth(x, d + 1)).max().unwrap_or(0),
        }
    }
    p.ctors.iter().all(|c| c.all_fields().all(|f| param_depth(f, 0) < 2))
}

pub fn gen_tref(t: &mut Tape, p: &Program, leaves: &[Ty], depth: usize, prefer_leaf_self: bool) -> TRef {
    // half of the time seed the predicate from an impl header (instantiating its parameters), so that
    // goals are satisfiable much more often than with independent random types
    if !p.impls.is_empty() && !prefer_leaf_self && t.chance(50) {
        let im = &p.impls[t.choose(p.impls.len())];
        let inst: Vec<Ty> = (0..im.nparams).map(|_| gen_ty(t, p, leaves, 1)).collect();
        return im.head.subst_params(&inst);
    }
    let tr = t.choose(p.traits.len());
    let self_ty = if prefer_leaf_self && !leaves.is_empty() && !t.chance(25) { leaves[t.choose(leaves.len())].clone() } else { gen_ty(t, p, leaves, depth) };
    let mut args = vec![self_ty];
    for _ in 0..p.traits[tr].extra {
        args.push(gen_ty(t, p, leaves, 1));
    }
    TRef { tr, args }
}

#[derive(Clone, Debug)]
pub struct GoalCfg {
    pub exists: bool,
    pub forall: bool,
    pub hyps: bool,
    pub not: bool,
    pub eq: bool,
    pub inner: bool,
    /// minimum number of existential variables (C03)
    pub force_exists: bool,
}

impl GoalCfg {
    pub fn full() -> Self {
        GoalCfg { exists: true, forall: true, hyps: true, not: true, eq: true, inner: true, force_exists: false }
    }
    pub fn closed() -> Self {
        GoalCfg { exists: false, eq: false, ..Self::full() }
    }
}

pub fn gen_goal(t: &mut Tape, p: &Program, cfg: &GoalCfg) -> Goal {
    let mut next_var = 0usize;
    let mut scope: Vec<Ty> = vec![];
    let mut foralls: Vec<Ty> = vec![];
    let mut prefix = vec![];
    let mut n_exists = 0;
    let np = t.choose(4);
    let mut fresh = |n: usize, next_var: &mut usize| -> Vec<usize> {
        (0..n)
            .map(|_| {
                let v = *next_var;
                *next_var += 1;
                v
            })
            .collect()
    };
    if cfg.force_exists {
        let k = 1 + t.choose(2);
        let vars = fresh(k, &mut next_var);
        n_exists += k;
        scope.extend(vars.iter().map(|v| Ty::QVar(*v)));
        prefix.push(Prefix::Exists(vars));
    }
    for _ in 0..np {
        match t.choose(10) {
            0..=3 if cfg.exists && n_exists < 2 => {
                let k = 1 + if n_exists == 0 && t.chance(25) { 1 } else { 0 };
                let vars = fresh(k, &mut next_var);
                n_exists += k;
                scope.extend(vars.iter().map(|v| Ty::QVar(*v)));
                prefix.push(Prefix::Exists(vars));
            }
            4..=6 if cfg.forall => {
                let k = 1 + if t.chance(20) { 1 } else { 0 };
                let vars = fresh(k, &mut next_var);
                scope.extend(vars.iter().map(|v| Ty::QVar(*v)));
                foralls.extend(vars.iter().map(|v| Ty::QVar(*v)));
                prefix.push(Prefix::Forall(vars));
            }
            7..=9 if cfg.hyps => {
                if foralls.is_empty() && !t.chance(30) {
                    continue;
                }
                let nh = 1 + t.choose(2);
                let hyps: Vec<Hyp> = (0..nh).map(|_| Hyp::Holds(gen_tref(t, p, if foralls.is_empty() { &scope } else { &foralls }, 1, true))).collect();
                prefix.push(Prefix::If(hyps));
            }
            _ => {}
        }
    }
    let nl = 1 + t.choose(2);
    let mut body = vec![];
    for _ in 0..nl {
        let lit = match t.choose(10) {
            7 if cfg.eq => Lit::Eq(gen_ty(t, p, &scope, 2), gen_ty(t, p, &scope, 2)),
            8 if cfg.not => Lit::Not(Box::new(Lit::Holds(gen_tref(t, p, &scope, 2, false)))),
            9 if cfg.inner => {
                let v = next_var;
                next_var += 1;
                let mut sc2 = scope.clone();
                sc2.push(Ty::QVar(v));
                let hyps = if t.chance(60) { vec![Hyp::Holds(gen_tref(t, p, &[Ty::QVar(v)], 1, true))] } else { vec![] };
                Lit::Inner(vec![v], hyps, Box::new(Lit::Holds(gen_tref(t, p, &sc2, 2, false))))
            }
            _ => Lit::Holds(gen_tref(t, p, &scope, 2, false)),
        };
        body.push(lit);
    }
    Goal { prefix, body }
}

// ---------------------------------------------------------------- structural shrinking helpers

/// Programs with one impl / where-clause / super / field removed (never removes ctors or traits, so
/// indices stay valid).
pub fn shrink_program(p: &Program) -> Vec<Program> {
    let mut out = vec![];
    for i in 0..p.impls.len() {
        let mut q = p.clone();
        q.impls.remove(i);
        out.push(q);
    }
    for i in 0..p.impls.len() {
        for w in 0..p.impls[i].wcs.len() {
            let mut q = p.clone();
            q.impls[i].wcs.remove(w);
            out.push(q);
        }
    }
    for i in 0..p.traits.len() {
        for w in 0..p.traits[i].supers.len() {
            let mut q = p.clone();
            q.traits[i].supers.remove(w);
            out.push(q);
        }
    }
    for i in 0..p.traits.len() {
        for w in 0..p.traits[i].assoc_wcs.len() {
            let mut q = p.clone();
            q.traits[i].assoc_wcs.remove(w);
            out.push(q);
        }
    }
    for i in 0..p.ctors.len() {
        for v in 0..p.ctors[i].variants.len() {
            for f in 0..p.ctors[i].variants[v].len() {
                let mut q = p.clone();
                q.ctors[i].variants[v].remove(f);
                out.push(q);
            }
        }
        for w in 0..p.ctors[i].wcs.len() {
            let mut q = p.clone();
            q.ctors[i].wcs.remove(w);
            out.push(q);
        }
    }
    // drop unused trailing traits / ctors
    if let Some(last) = p.traits.len().checked_sub(1) {
        let used = p.impls.iter().any(|im| im.head.tr == last || im.wcs.iter().any(|w| w.tr == last)) || p.traits.iter().any(|t| t.supers.iter().any(|s| s.tr == last) || t.assoc_wcs.iter().any(|w| w.1 == last) || t.assocs.iter().any(|a| a.1.contains(&last)));
        if !used && p.traits.len() > 1 {
            let mut q = p.clone();
            q.traits.pop();
            out.push(q);
        }
    }
    out
}

pub fn shrink_goal(g: &Goal) -> Vec<Goal> {
    let mut out = vec![];
    if g.body.len() > 1 {
        for i in 0..g.body.len() {
            let mut q = g.clone();
            q.body.remove(i);
            out.push(q);
        }
    }
    for i in 0..g.prefix.len() {
        if let Prefix::If(h) = &g.prefix[i] {
            if h.len() > 1 {
                for k in 0..h.len() {
                    let mut q = g.clone();
                    if let Prefix::If(h2) = &mut q.prefix[i] {
                        h2.remove(k);
                    }
                    out.push(q);
                }
            } else {
                let mut q = g.clone();
                q.prefix.remove(i);
                out.push(q);
            }
        }
    }
    out
}

/// does a goal / program mention a trait index >= n (used to keep shrunk cases consistent)
pub fn goal_traits_ok(g: &Goal, ntraits: usize) -> bool {
    fn lit(l: &Lit, n: usize) -> bool {
        match l {
            Lit::Holds(t) => t.tr < n,
            Lit::Not(x) => lit(x, n),
            Lit::Inner(_, h, x) => h.iter().all(|h| hyp(h, n)) && lit(x, n),
            Lit::ProjEq(t, _, _) => t.tr < n,
            _ => true,
        }
    }
    fn hyp(h: &Hyp, n: usize) -> bool {
        match h {
            Hyp::Holds(t) => t.tr < n,
            _ => true,
        }
    }
    g.body.iter().all(|l| lit(l, ntraits))
        && g.prefix.iter().all(|p| match p {
            Prefix::If(h) => h.iter().all(|h| hyp(h, ntraits)),
            _ => true,
        })
}

// ---------------------------------------------------------------- shape: dense coinductive cycles

/// Few ground types, several coinductive traits: the atoms (trait, type) are wired into a
/// dependency graph that is *constructed* to be cyclic — a ring through some atoms, chords between
/// random atoms inserted at random where-clause positions, leaves that fail (an inductive trait
/// without impl) or hold (a fact) — so that cycle members succeed or fail together and provisional
/// results must be revised. Alternative impls for the same atom are added occasionally.
pub fn gen_dense_coinductive(t: &mut Tape) -> Program {
    let mut p = Program::default();
    let nty = 1 + t.choose(3);
    for name in NULLARY.iter().take(nty) {
        p.ctors.push(new_ctor(name, 0));
    }
    let nco = 1 + t.choose(4);
    for name in TRAITS.iter().take(nco) {
        p.traits.push(new_trait(name, 0, TraitKind::Coinductive));
    }
    // inductive leaf traits: index nco = "never implemented", nco+1 = "implemented for everything"
    p.traits.push(new_trait(TRAITS[nco], 0, TraitKind::Inductive));
    let never = nco;
    let always = if t.chance(50) {
        p.traits.push(new_trait(TRAITS[nco + 1], 0, TraitKind::Inductive));
        Some(nco + 1)
    } else {
        None
    };
    // coinductive atoms
    let mut atoms: Vec<TRef> = vec![];
    for tr in 0..nco {
        for ty in 0..nty {
            atoms.push(TRef { tr, args: vec![Ty::Adt(ty, vec![])] });
        }
    }
    t.shuffle(&mut atoms);
    let n = atoms.len().min(2 + t.choose(5));
    atoms.truncate(n);
    // ring through the first k atoms
    let k = 1 + t.choose(n);
    let mut bodies: Vec<Vec<TRef>> = vec![vec![]; n];
    for i in 0..k {
        bodies[i].push(atoms[(i + 1) % k].clone());
    }
    // atoms outside the ring depend on a ring member or are facts
    for i in k..n {
        if t.chance(75) {
            let j = t.choose(n);
            bodies[i].push(atoms[j].clone());
        }
    }
    // chords and leaves at random positions
    let nchords = t.choose(2 * n + 1);
    for _ in 0..nchords {
        let i = t.choose(n);
        if bodies[i].len() >= 4 {
            continue;
        }
        let target = match t.choose(8) {
            0 => TRef { tr: never, args: vec![Ty::Adt(t.choose(nty), vec![])] },
            1 if always.is_some() => TRef { tr: always.unwrap(), args: vec![Ty::Adt(t.choose(nty), vec![])] },
            _ => atoms[t.choose(n)].clone(),
        };
        let pos = t.choose(bodies[i].len() + 1);
        bodies[i].insert(pos, target);
    }
    for i in 0..n {
        p.impls.push(ImplDef { nparams: 0, head: atoms[i].clone(), wcs: bodies[i].clone(), positive: true, values: vec![], upstream: false });
    }
    // alternative impls (a second way to prove an atom)
    let nalt = t.choose(3);
    for _ in 0..nalt {
        let i = t.choose(n);
        let nw = t.choose(3);
        let wcs = (0..nw).map(|_| atoms[t.choose(n)].clone()).collect();
        p.impls.push(ImplDef { nparams: 0, head: atoms[i].clone(), wcs, positive: true, values: vec![], upstream: false });
    }
    if let Some(a) = always {
        p.impls.push(ImplDef { nparams: 1, head: TRef { tr: a, args: vec![Ty::Param(0)] }, wcs: vec![], positive: true, values: vec![], upstream: false });
    }
    t.shuffle(&mut p.impls);
    p
}

/// closed goals over a dense coinductive program: ground predicates, conjunctions, `not`
pub fn gen_dense_goal(t: &mut Tape, p: &Program) -> Goal {
    let atom = |t: &mut Tape| -> TRef {
        let ground: Vec<&ImplDef> = p.impls.iter().filter(|im| im.nparams == 0).collect();
        if !ground.is_empty() && t.chance(70) {
            ground[t.choose(ground.len())].head.clone()
        } else {
            let c = t.choose(p.ctors.len());
            let ty = if p.ctors[c].arity == 0 { Ty::Adt(c, vec![]) } else { Ty::Adt(c, vec![Ty::Adt(0, vec![])]) };
            TRef { tr: t.choose(p.traits.len()), args: vec![ty] }
        }
    };
    let n = 1 + t.choose(3);
    let body = (0..n)
        .map(|_| {
            let a = atom(t);
            if t.chance(25) {
                Lit::Not(Box::new(Lit::Holds(a)))
            } else {
                Lit::Holds(a)
            }
        })
        .collect();
    Goal { prefix: vec![], body }
}

// ---------------------------------------------------------------- shape: several constraints on one unknown

/// Facts over a few ground and one-level generic types, generic impls `impl<T> Tr for S<T> where T: Tr2`,
/// and "conjunctive" impls `impl<X> Both for W<X> where X: Ta, X: Tb(, X: Tc)` whose where-clauses all
/// constrain the same parameter: solving them needs partial information from one constraint (definite
/// guidance such as `X := S<?>`) to be combined with the others, in whatever order they are written.
pub fn gen_conj_program(t: &mut Tape) -> Program {
    let mut p = Program::default();
    for name in ["A", "B", "C"].iter().take(2 + t.choose(2)) {
        p.ctors.push(new_ctor(name, 0));
    }
    let n0 = p.ctors.len();
    p.ctors.push(new_ctor("S", 1));
    p.ctors.push(new_ctor("W", 1));
    let (s, w) = (n0, n0 + 1);
    let nt = 3 + t.choose(3);
    for name in TRAITS.iter().take(nt) {
        p.traits.push(new_trait(name, 0, TraitKind::Inductive));
    }
    let nullary = |t: &mut Tape| Ty::Adt(t.choose(n0), vec![]);
    // trait 0 has several ground facts, so that `T: Trait0` is ambiguous on its own
    for c in 0..n0.min(2 + t.choose(2)) {
        p.impls.push(ImplDef { nparams: 0, head: TRef { tr: 0, args: vec![Ty::Adt(c, vec![])] }, wcs: vec![], positive: true, values: vec![], upstream: false });
    }
    let nf = 3 + t.choose(6);
    for _ in 0..nf {
        let tr = t.choose(nt);
        let ty = match t.choose(4) {
            0 | 1 => nullary(t),
            2 => Ty::Adt(s, vec![nullary(t)]),
            _ => Ty::Adt(w, vec![nullary(t)]),
        };
        p.impls.push(ImplDef { nparams: 0, head: TRef { tr, args: vec![ty] }, wcs: vec![], positive: true, values: vec![], upstream: false });
    }
    let ng = 1 + t.choose(3);
    for _ in 0..ng {
        let tr = t.choose(nt);
        let c = if t.chance(70) { s } else { w };
        let nw = t.choose(3);
        // usually constrained by the many-facts trait: the impl then yields definite but partial guidance
        let wcs = (0..nw).map(|_| TRef { tr: if t.chance(60) { 0 } else { t.choose(nt) }, args: vec![Ty::Param(0)] }).collect();
        p.impls.push(ImplDef { nparams: 1, head: TRef { tr, args: vec![Ty::Adt(c, vec![Ty::Param(0)])] }, wcs, positive: true, values: vec![], upstream: false });
    }
    // conjunctive impls
    let nc = 1 + t.choose(2);
    for _ in 0..nc {
        let tr = t.choose(nt);
        let nw = 2 + t.choose(2);
        let wcs: Vec<TRef> = (0..nw).map(|_| TRef { tr: t.choose(nt), args: vec![if t.chance(85) { Ty::Param(0) } else { Ty::Adt(s, vec![Ty::Param(0)]) }] }).collect();
        let head_ty = if t.chance(75) { Ty::Adt(w, vec![Ty::Param(0)]) } else { Ty::Adt(s, vec![Ty::Param(0)]) };
        p.impls.push(ImplDef { nparams: 1, head: TRef { tr, args: vec![head_ty] }, wcs, positive: true, values: vec![], upstream: false });
    }
    t.shuffle(&mut p.impls);
    p
}

pub fn gen_conj_goal(t: &mut Tape, p: &Program) -> Goal {
    let nt = p.traits.len();
    let unary: Vec<usize> = (0..p.ctors.len()).filter(|c| p.ctors[*c].arity == 1).collect();
    let x = Ty::QVar(0);
    let atom = |t: &mut Tape| -> TRef {
        let ty = match t.choose(4) {
            0 | 1 => Ty::Adt(unary[t.choose(unary.len())], vec![x.clone()]),
            2 => x.clone(),
            _ => Ty::Adt(unary[t.choose(unary.len())], vec![Ty::Adt(unary[t.choose(unary.len())], vec![x.clone()])]),
        };
        TRef { tr: t.choose(nt), args: vec![ty] }
    };
    let n = 1 + t.choose(2);
    Goal { prefix: vec![Prefix::Exists(vec![0])], body: (0..n).map(|_| Lit::Holds(atom(t))).collect() }
}

// ---------------------------------------------------------------- shape: several answers over a two-parameter constructor
//
// Aggregation of several answers (anti-unification, "can a later answer still invalidate the guidance?") only has
// something to decide when answers agree in one argument of a constructor and differ in another. Programs: a few
// traits with 2-4 impls each whose headers are `P<x, y>` patterns (ground, generic, shared parameter, nested), plus
// unary and nullary headers; goals ask for the whole type, for both arguments, or for one of them.

pub fn gen_pair_program(t: &mut Tape) -> Program {
    let mut p = Program::default();
    let n0 = 3 + t.choose(2);
    for name in NULLARY.iter().take(n0) {
        p.ctors.push(new_ctor(name, 0));
    }
    p.ctors.push(new_ctor("V", 1));
    p.ctors.push(new_ctor("P", 2));
    let (v, pp) = (n0, n0 + 1);
    let nt = 2 + t.choose(2);
    for name in TRAITS.iter().take(nt) {
        p.traits.push(new_trait(name, 0, TraitKind::Inductive));
    }
    // a helper trait with a few facts, usable in where-clauses
    for c in 0..n0 {
        if t.chance(50) {
            p.impls.push(ImplDef { nparams: 0, head: TRef { tr: nt - 1, args: vec![Ty::Adt(c, vec![])] }, wcs: vec![], positive: true, values: vec![], upstream: false });
        }
    }
    for tr in 0..nt - 1 {
        let n = 2 + t.choose(3);
        for _ in 0..n {
            let mut np = 0usize;
            let mut arg = |t: &mut Tape, np: &mut usize| -> Ty {
                match t.choose(8) {
                    0 | 1 | 2 => Ty::Adt(t.choose(n0), vec![]),
                    3 | 4 => {
                        *np += 1;
                        Ty::Param(*np - 1)
                    }
                    5 if *np > 0 => Ty::Param(t.choose(*np)),
                    6 => Ty::Adt(v, vec![Ty::Adt(t.choose(n0), vec![])]),
                    _ => {
                        *np += 1;
                        Ty::Adt(v, vec![Ty::Param(*np - 1)])
                    }
                }
            };
            let head = match t.choose(8) {
                0 => Ty::Adt(t.choose(n0), vec![]),
                1 => {
                    let a = arg(t, &mut np);
                    Ty::Adt(v, vec![a])
                }
                _ => {
                    let a = arg(t, &mut np);
                    let b = arg(t, &mut np);
                    Ty::Adt(pp, vec![a, b])
                }
            };
            let mut wcs = vec![];
            if np > 0 && t.chance(30) {
                wcs.push(TRef { tr: nt - 1, args: vec![Ty::Param(t.choose(np))] });
            }
            p.impls.push(ImplDef { nparams: np, head: TRef { tr, args: vec![head] }, wcs, positive: true, values: vec![], upstream: false });
        }
    }
    p
}

pub fn gen_pair_goal(t: &mut Tape, p: &Program) -> Goal {
    let nt = p.traits.len();
    let pp = p.ctors.iter().position(|c| c.arity == 2).unwrap_or(0);
    let n0 = p.ctors.iter().filter(|c| c.arity == 0).count();
    let tr = t.choose(nt - 1);
    let x = Ty::QVar(0);
    let y = Ty::QVar(1);
    let (vars, ty) = match t.choose(6) {
        0 | 1 => (vec![0], x.clone()),
        2 | 3 => (vec![0, 1], Ty::Adt(pp, vec![x.clone(), y.clone()])),
        4 => (vec![0], Ty::Adt(pp, vec![x.clone(), Ty::Adt(t.choose(n0), vec![])])),
        _ => (vec![0], Ty::Adt(pp, vec![Ty::Adt(t.choose(n0), vec![]), x.clone()])),
    };
    let mut body = vec![Lit::Holds(TRef { tr, args: vec![ty] })];
    if t.chance(20) {
        body.push(Lit::Holds(TRef { tr: t.choose(nt), args: vec![x.clone()] }));
    }
    Goal { prefix: vec![Prefix::Exists(vars)], body }
}
