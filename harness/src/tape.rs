//! Choice tape: every generator is a decoder over a byte tape, so that the same decoder
//! serves proptest (`vec(any::<u8>())` + shrinking), libFuzzer and replay. An exhausted
//! tape yields the simplest choice; smaller bytes decode to smaller/simple choices
//! (monotone index mapping), so proptest's byte shrinking shrinks the decoded case.

pub struct Tape<'a> {
    pub data: &'a [u8],
    pub pos: usize,
}

impl<'a> Tape<'a> {
    pub fn new(data: &'a [u8]) -> Self {
        Tape { data, pos: 0 }
    }
    pub fn byte(&mut self) -> u8 {
        let b = self.data.get(self.pos).copied().unwrap_or(0);
        self.pos += 1;
        b
    }
    /// monotone in the byte: smaller byte -> smaller index
    pub fn choose(&mut self, n: usize) -> usize {
        if n <= 1 {
            return 0;
        }
        if n <= 256 {
            (self.byte() as usize * n) >> 8
        } else {
            let v = ((self.byte() as usize) << 8) | self.byte() as usize;
            (v * n) >> 16
        }
    }
    /// true with probability ~pct/100; byte 0 => false (exhausted tapes take the "simple" branch)
    pub fn chance(&mut self, pct: usize) -> bool {
        (self.byte() as usize * 100) >> 8 >= 100 - pct.min(100)
    }
    pub fn exhausted(&self) -> bool {
        self.pos >= self.data.len()
    }
    /// in-place Fisher-Yates driven by the tape (all-zero tape = identity... reversed rotation is fine)
    pub fn shuffle<T>(&mut self, v: &mut [T]) {
        for i in (1..v.len()).rev() {
            let j = i - self.choose(i + 1).min(i);
            v.swap(i, j);
        }
    }
}
