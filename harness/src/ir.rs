//! IR-level mirror AST, reference unifier with universes and kinded variables, chalk conversion.
use crate::tape::Tape;
use chalk_integration::interner::ChalkIr;
use chalk_integration::RawId;
use chalk_ir::cast::Cast;
use chalk_ir::*;
use chalk_solve::infer::InferenceTable;
use serde::{Deserialize, Serialize};
use std::collections::BTreeMap;

pub const I: ChalkIr = ChalkIr;

#[derive(Clone, Debug, PartialEq, Eq, Hash, PartialOrd, Ord, Serialize, Deserialize)]
pub enum MLt {
    Static,
    Ph(usize, usize),
    Var(usize),
}

#[derive(Clone, Debug, PartialEq, Eq, Hash, PartialOrd, Ord, Serialize, Deserialize)]
pub enum MTy {
    /// ADT ids encode their arity: id % 3
    Adt(u32, Vec<MTy>),
    Tuple(Vec<MTy>),
    Slice(Box<MTy>),
    Ref(bool, MLt, Box<MTy>),
    Raw(bool, Box<MTy>),
    /// 0 i32, 1 u32 (ints), 2 f32, 3 f64 (floats), 4 bool
    Scalar(u8),
    Str,
    Never,
    Ph(usize, usize),
    Var(usize),
    /// canonical variable (after normalisation)
    CVar(usize),
}

#[derive(Clone, Copy, Debug, PartialEq, Eq, Serialize, Deserialize)]
pub enum Kind {
    General,
    Int,
    Float,
}

#[derive(Debug)]
pub struct Db;
impl UnificationDatabase<ChalkIr> for Db {
    fn fn_def_variance(&self, _: FnDefId<ChalkIr>) -> Variances<ChalkIr> {
        Variances::empty(I)
    }
    fn adt_variance(&self, id: AdtId<ChalkIr>) -> Variances<ChalkIr> {
        Variances::from_iter(I, vec![Variance::Invariant; (id.0.index % 3) as usize])
    }
}

pub fn scalar(k: u8) -> Scalar {
    match k {
        0 => Scalar::Int(IntTy::I32),
        1 => Scalar::Uint(UintTy::U32),
        2 => Scalar::Float(FloatTy::F32),
        3 => Scalar::Float(FloatTy::F64),
        _ => Scalar::Bool,
    }
}

pub fn ph_ty(u: usize, i: usize) -> Ty<ChalkIr> {
    PlaceholderIndex { ui: UniverseIndex { counter: u }, idx: i }.to_ty(I)
}
pub fn ph_lt(u: usize, i: usize) -> Lifetime<ChalkIr> {
    PlaceholderIndex { ui: UniverseIndex { counter: u }, idx: i }.to_lifetime(I)
}

/// variables in both representations
pub struct World {
    pub table: InferenceTable<ChalkIr>,
    /// chalk var, kind, universe at creation
    pub ty_vars: Vec<(Ty<ChalkIr>, Kind, usize)>,
    pub lt_vars: Vec<Lifetime<ChalkIr>>,
    // reference state
    pub bind: BTreeMap<usize, MTy>,
    pub univ: Vec<usize>,
}

pub const NUNIVERSES: usize = 3;

impl World {
    /// table with universes 0..NUNIVERSES and the given variables
    pub fn new(vars: &[(Kind, usize)], lt_vars: &[usize]) -> World {
        let mut w = World { table: InferenceTable::new(), ty_vars: vec![], lt_vars: vec![], bind: BTreeMap::new(), univ: vec![] };
        let mut unis = vec![UniverseIndex::root()];
        for _ in 1..NUNIVERSES {
            unis.push(w.table.new_universe());
        }
        for (kind, u) in vars {
            let v = w.table.new_variable(unis[*u]);
            let ty = match kind {
                Kind::General => v.to_ty(I),
                Kind::Int => v.to_ty_with_kind(I, TyVariableKind::Integer),
                Kind::Float => v.to_ty_with_kind(I, TyVariableKind::Float),
            };
            w.ty_vars.push((ty, *kind, *u));
            w.univ.push(*u);
        }
        for u in lt_vars {
            let v = w.table.new_variable(unis[*u]);
            w.lt_vars.push(v.to_lifetime(I));
        }
        w
    }

    pub fn lt(&self, l: &MLt) -> Lifetime<ChalkIr> {
        match l {
            MLt::Static => LifetimeData::Static.intern(I),
            MLt::Ph(u, i) => ph_lt(*u, *i),
            MLt::Var(v) => self.lt_vars[*v].clone(),
        }
    }
    pub fn ty(&self, t: &MTy) -> Ty<ChalkIr> {
        let subst = |a: &Vec<MTy>| Substitution::from_iter(I, a.iter().map(|x| self.ty(x).cast::<GenericArg<ChalkIr>>(I)));
        match t {
            MTy::Adt(id, a) => TyKind::Adt(AdtId(RawId { index: *id }), subst(a)).intern(I),
            MTy::Tuple(a) => TyKind::Tuple(a.len(), subst(a)).intern(I),
            MTy::Slice(x) => TyKind::Slice(self.ty(x)).intern(I),
            MTy::Ref(m, l, x) => TyKind::Ref(if *m { Mutability::Mut } else { Mutability::Not }, self.lt(l), self.ty(x)).intern(I),
            MTy::Raw(m, x) => TyKind::Raw(if *m { Mutability::Mut } else { Mutability::Not }, self.ty(x)).intern(I),
            MTy::Scalar(k) => TyKind::Scalar(scalar(*k)).intern(I),
            MTy::Str => TyKind::Str.intern(I),
            MTy::Never => TyKind::Never.intern(I),
            MTy::Ph(u, i) => ph_ty(*u, *i),
            MTy::Var(v) => self.ty_vars[*v].0.clone(),
            MTy::CVar(_) => unreachable!(),
        }
    }

    // ---- reference unifier (lifetimes ignored): Robinson with occurs check, universes, kinds
    pub fn resolve(&self, t: &MTy) -> MTy {
        let mut t = t.clone();
        while let MTy::Var(v) = &t {
            match self.bind.get(v) {
                Some(b) => t = b.clone(),
                None => break,
            }
        }
        t
    }
    pub fn deep(&self, t: &MTy) -> MTy {
        match self.resolve(t) {
            MTy::Adt(i, a) => MTy::Adt(i, a.iter().map(|x| self.deep(x)).collect()),
            MTy::Tuple(a) => MTy::Tuple(a.iter().map(|x| self.deep(x)).collect()),
            MTy::Slice(x) => MTy::Slice(Box::new(self.deep(&x))),
            MTy::Ref(m, l, x) => MTy::Ref(m, l, Box::new(self.deep(&x))),
            MTy::Raw(m, x) => MTy::Raw(m, Box::new(self.deep(&x))),
            o => o,
        }
    }
    fn occurs_and_universe(&mut self, v: usize, t: &MTy, u: usize) -> bool {
        match self.resolve(t) {
            MTy::Var(w) => {
                if w == v {
                    return false;
                }
                if self.univ[w] > u {
                    self.univ[w] = u;
                }
                true
            }
            MTy::Ph(pu, _) => pu <= u,
            MTy::Adt(_, a) | MTy::Tuple(a) => a.iter().all(|x| self.occurs_and_universe(v, x, u)),
            MTy::Slice(x) | MTy::Ref(_, _, x) | MTy::Raw(_, x) => self.occurs_and_universe(v, &x, u),
            _ => true,
        }
    }
    pub fn kind_of(&self, v: usize) -> Kind {
        self.ty_vars[v].1
    }
    pub fn unify(&mut self, a: &MTy, b: &MTy) -> bool {
        let a = self.resolve(a);
        let b = self.resolve(b);
        match (&a, &b) {
            (MTy::Var(x), MTy::Var(y)) => {
                if x == y {
                    return true;
                }
                let (kx, ky) = (self.kind_of(*x), self.kind_of(*y));
                match (kx, ky) {
                    (Kind::General, Kind::General) => {
                        let u = self.univ[*x].min(self.univ[*y]);
                        self.univ[*x] = u;
                        self.univ[*y] = u;
                        self.bind.insert(*x, MTy::Var(*y));
                        true
                    }
                    (Kind::General, _) => {
                        self.bind.insert(*x, MTy::Var(*y));
                        true
                    }
                    (_, Kind::General) => {
                        self.bind.insert(*y, MTy::Var(*x));
                        true
                    }
                    (k1, k2) if k1 == k2 => {
                        self.bind.insert(*x, MTy::Var(*y));
                        true
                    }
                    _ => false,
                }
            }
            (MTy::Var(x), t) | (t, MTy::Var(x)) => {
                let ok_kind = match (self.kind_of(*x), t) {
                    (Kind::General, _) => true,
                    (Kind::Int, MTy::Scalar(k)) => *k <= 1,
                    (Kind::Float, MTy::Scalar(k)) => *k == 2 || *k == 3,
                    _ => false,
                };
                if !ok_kind {
                    return false;
                }
                let u = self.univ[*x];
                let t = t.clone();
                if !self.occurs_and_universe(*x, &t, u) {
                    return false;
                }
                self.bind.insert(*x, t);
                true
            }
            (MTy::Adt(i, p), MTy::Adt(j, q)) => i == j && p.len() == q.len() && p.iter().zip(q).all(|(x, y)| self.unify(x, y)),
            (MTy::Tuple(p), MTy::Tuple(q)) => p.len() == q.len() && p.iter().zip(q).all(|(x, y)| self.unify(x, y)),
            (MTy::Slice(x), MTy::Slice(y)) => self.unify(x, y),
            (MTy::Ref(m, _, x), MTy::Ref(n, _, y)) => m == n && self.unify(x, y),
            (MTy::Raw(m, x), MTy::Raw(n, y)) => m == n && self.unify(x, y),
            (MTy::Scalar(x), MTy::Scalar(y)) => x == y,
            (MTy::Str, MTy::Str) | (MTy::Never, MTy::Never) => true,
            (MTy::Ph(u, i), MTy::Ph(v, j)) => u == v && i == j,
            _ => false,
        }
    }

    /// observable state of the chalk table: canonical form of the tuple of all variables
    pub fn chalk_state(&self) -> (String, Vec<MTy>, Vec<(Kind, usize)>) {
        let all: Vec<GenericArg<ChalkIr>> = self.ty_vars.iter().map(|v| v.0.clone().cast(I)).chain(self.lt_vars.iter().map(|l| l.clone().cast(I))).collect();
        let c = self.table.clone().canonicalize(I, Substitution::from_iter(I, all)).quantified;
        let dbg = format!("{:?}", c);
        let tys: Vec<MTy> = c.value.iter(I).filter_map(|a| a.ty(I)).map(from_chalk).collect();
        let kinds: Vec<(Kind, usize)> = c
            .binders
            .iter(I)
            .map(|b| {
                (
                    match &b.kind {
                        VariableKind::Ty(TyVariableKind::General) => Kind::General,
                        VariableKind::Ty(TyVariableKind::Integer) => Kind::Int,
                        VariableKind::Ty(TyVariableKind::Float) => Kind::Float,
                        _ => Kind::General,
                    },
                    b.skip_kind().counter,
                )
            })
            .collect();
        (dbg, tys, kinds)
    }
}

/// chalk canonical value -> mirror, lifetimes erased to Static
pub fn from_chalk(t: &Ty<ChalkIr>) -> MTy {
    match t.kind(I) {
        TyKind::Adt(id, s) => MTy::Adt(id.0.index, s.iter(I).map(|a| from_chalk(a.ty(I).unwrap())).collect()),
        TyKind::Tuple(_, s) => MTy::Tuple(s.iter(I).map(|a| from_chalk(a.ty(I).unwrap())).collect()),
        TyKind::Slice(x) => MTy::Slice(Box::new(from_chalk(x))),
        TyKind::Ref(m, _, x) => MTy::Ref(*m == Mutability::Mut, MLt::Static, Box::new(from_chalk(x))),
        TyKind::Raw(m, x) => MTy::Raw(*m == Mutability::Mut, Box::new(from_chalk(x))),
        TyKind::Scalar(s) => MTy::Scalar(match s {
            Scalar::Int(_) => 0,
            Scalar::Uint(_) => 1,
            Scalar::Float(FloatTy::F32) => 2,
            Scalar::Float(_) => 3,
            _ => 4,
        }),
        TyKind::Str => MTy::Str,
        TyKind::Never => MTy::Never,
        TyKind::Placeholder(p) => MTy::Ph(p.ui.counter, p.idx),
        TyKind::BoundVar(b) => MTy::CVar(b.index),
        o => panic!("unexpected type in canonical state {:?}", o),
    }
}

pub fn erase(t: &MTy) -> MTy {
    match t {
        MTy::Adt(i, a) => MTy::Adt(*i, a.iter().map(erase).collect()),
        MTy::Tuple(a) => MTy::Tuple(a.iter().map(erase).collect()),
        MTy::Slice(x) => MTy::Slice(Box::new(erase(x))),
        MTy::Ref(m, _, x) => MTy::Ref(*m, MLt::Static, Box::new(erase(x))),
        MTy::Raw(m, x) => MTy::Raw(*m, Box::new(erase(x))),
        o => o.clone(),
    }
}

/// renumber variables (Var or CVar) by first occurrence; returns the renumbered tuple and, per new index, the old id
pub fn renumber(ts: &[MTy]) -> (Vec<MTy>, Vec<(bool, usize)>) {
    fn go(t: &MTy, map: &mut Vec<(bool, usize)>) -> MTy {
        let mut idx = |key: (bool, usize), map: &mut Vec<(bool, usize)>| -> usize {
            map.iter().position(|k| *k == key).unwrap_or_else(|| {
                map.push(key);
                map.len() - 1
            })
        };
        match t {
            MTy::Var(v) => MTy::CVar(idx((false, *v), map)),
            MTy::CVar(v) => MTy::CVar(idx((true, *v), map)),
            MTy::Adt(i, a) => MTy::Adt(*i, a.iter().map(|x| go(x, map)).collect()),
            MTy::Tuple(a) => MTy::Tuple(a.iter().map(|x| go(x, map)).collect()),
            MTy::Slice(x) => MTy::Slice(Box::new(go(x, map))),
            MTy::Ref(m, l, x) => MTy::Ref(*m, l.clone(), Box::new(go(x, map))),
            MTy::Raw(m, x) => MTy::Raw(*m, Box::new(go(x, map))),
            o => o.clone(),
        }
    }
    let mut map = vec![];
    let out = ts.iter().map(|t| go(t, &mut map)).collect();
    (out, map)
}

pub fn mty_depth(t: &MTy) -> usize {
    match t {
        MTy::Adt(_, a) | MTy::Tuple(a) => 1 + a.iter().map(mty_depth).max().unwrap_or(0),
        MTy::Slice(x) | MTy::Ref(_, _, x) | MTy::Raw(_, x) => 1 + mty_depth(x),
        _ => 1,
    }
}

// ---------------------------------------------------------------- generators (tape-driven)

pub fn gen_lt(t: &mut Tape, nlt: usize) -> MLt {
    match t.choose(4) {
        0 => MLt::Static,
        1 => MLt::Ph(t.choose(NUNIVERSES), 2 + t.choose(2)),
        _ if nlt > 0 => MLt::Var(t.choose(nlt)),
        _ => MLt::Static,
    }
}

pub fn gen_mty(t: &mut Tape, nvars: usize, nlt: usize, depth: usize) -> MTy {
    if depth == 0 || t.chance(35) {
        match t.choose(10) {
            0..=3 if nvars > 0 => MTy::Var(t.choose(nvars)),
            4 => MTy::Ph(t.choose(NUNIVERSES), t.choose(2)),
            5 => MTy::Scalar(t.choose(5) as u8),
            6 => MTy::Str,
            7 => MTy::Never,
            _ => MTy::Adt(t.choose(2) as u32 * 3, vec![]), // ids 0 and 3 are nullary (id % 3 == arity)
        }
    } else {
        match t.choose(7) {
            0 => MTy::Adt(1, vec![gen_mty(t, nvars, nlt, depth - 1)]),
            1 => MTy::Adt(2, vec![gen_mty(t, nvars, nlt, depth - 1), gen_mty(t, nvars, nlt, depth - 1)]),
            2 => {
                let n = t.choose(3);
                MTy::Tuple((0..n).map(|_| gen_mty(t, nvars, nlt, depth - 1)).collect())
            }
            3 => MTy::Slice(Box::new(gen_mty(t, nvars, nlt, depth - 1))),
            4 => MTy::Ref(t.chance(40), gen_lt(t, nlt), Box::new(gen_mty(t, nvars, nlt, depth - 1))),
            5 => MTy::Raw(t.chance(50), Box::new(gen_mty(t, nvars, nlt, depth - 1))),
            _ => MTy::Adt(4, vec![gen_mty(t, nvars, nlt, depth - 1)]),
        }
    }
}

/// partial instantiation: replace some subterms by variables -> pairs built from one base term often unify
pub fn blur(t: &mut Tape, nvars: usize, nlt: usize, ty: &MTy, pct: usize) -> MTy {
    if nvars > 0 && t.chance(pct) {
        return MTy::Var(t.choose(nvars));
    }
    match ty {
        MTy::Adt(i, a) => MTy::Adt(*i, a.iter().map(|x| blur(t, nvars, nlt, x, pct)).collect()),
        MTy::Tuple(a) => MTy::Tuple(a.iter().map(|x| blur(t, nvars, nlt, x, pct)).collect()),
        MTy::Slice(x) => MTy::Slice(Box::new(blur(t, nvars, nlt, x, pct))),
        MTy::Ref(m, l, x) => MTy::Ref(*m, if t.chance(30) { gen_lt(t, nlt) } else { l.clone() }, Box::new(blur(t, nvars, nlt, x, pct))),
        MTy::Raw(m, x) => MTy::Raw(*m, Box::new(blur(t, nvars, nlt, x, pct))),
        o => o.clone(),
    }
}
