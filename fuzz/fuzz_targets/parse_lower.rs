#![no_main]
//! C24 under coverage guidance: any text through parser + lowering; a panic is the finding.
use libfuzzer_sys::fuzz_target;

fuzz_target!(|data: &[u8]| {
    let text = String::from_utf8_lossy(data);
    // nesting is bounded by the generators of the proptest engine; keep the same limitation here
    if text.len() > 4000 || text.matches(|c| c == '(' || c == '<' || c == '[' || c == '{').count() > 200 {
        return;
    }
    let _ = chalk_verif::props::c24::exercise(&text, false);
});
